"""C01 — static extraction is faithful to the source (engine X).

Obligations
  predicates     : the visibility decision table on real Object/Alias instances with symbolic names / __all__.
  span_slice     : Object.lines / Object.source / Docstring.source for every (lineno, endlineno) over symbolic lines.
  visit_skeleton : the real Visitor run on hand-built `ast` trees (the node classes `compile` produces) whose names,
                   line numbers and docstring text are symbolic; statement kinds per slot are bound concretely by the
                   driver. Oracle: a reference binding model of the skeleton. Hand-built trees are validated against
                   `ast.parse` of a rendering of the same skeleton on every run (grid + replay of counterexamples).
"""
from __future__ import annotations

import ast
import itertools
from pathlib import Path

from _griffe.agents.visitor import Visitor, visit
from _griffe.collections import LinesCollection
from _griffe.enumerations import Kind
from _griffe.extensions.base import Extension, Extensions
from _griffe.mixins import ObjectAliasMixin
from _griffe.models import Alias, Attribute, Class, Docstring, Function, Module, Object
from vlib.ob import TIER, HarnessDefect, cover, fail, obligation, tiered, prop
from vlib.stubs import plain_error_messages, silence_logging

STUBS = silence_logging() + plain_error_messages()

# ============================================================================================ predicates
NAME_AL = "_a"


def _ref_public(name, public, is_alias, kind, parent_kind, exports, imported):
    """The documented decision procedure of `is_public` (docstring of ObjectAliasMixin.is_public)."""
    if public is not None:
        return public
    if not is_alias and kind == "module" and not name.startswith("_"):
        return True  # modules follow the underscore convention only
    if parent_kind == "module" and exports:  # (empty __all__: left open, excluded by precondition)
        return name in exports
    private = name.startswith("_") and not (name.startswith("__") and name.endswith("__"))
    if private:
        return False
    if imported:
        return False
    return True


def _ref_wildcard(name, runtime, is_alias, kind, parent_kind, exports, imported):
    if not runtime or parent_kind != "module":
        return False
    if exports is not None:
        return name in exports
    if name.startswith("_"):
        return False
    return is_alias or kind != "module" or imported


PRED_KINDS = tiered((0, 2), (0, 1, 2, 3))


@obligation(
    pid="C01", name="predicates", timeout=tiered(280, 900),
    pre=lambda name, e1, nexports, public, imported, runtime, parent_kind, obj_kind, is_alias: 1 <= len(name) <= 3 and all(c in NAME_AL for c in name)
    and 1 <= len(e1) <= 3 and all(c in NAME_AL for c in e1)
    and -1 <= nexports <= 2 and nexports != 0 and -1 <= public <= 1 and 0 <= parent_kind <= 2 and obj_kind in PRED_KINDS and not (parent_kind == 0 and imported),
    shards=lambda: [(f"parent={p},alias={a},kind={k},public={pb}", None, [dict(parent_kind=p, is_alias=a, obj_kind=k, public=pb)]) for p in range(3) for a in (False, True) for k in PRED_KINDS for pb in (-1, 0, 1)],
    drives=[prop(ObjectAliasMixin, "is_public"), prop(ObjectAliasMixin, "is_private"), prop(ObjectAliasMixin, "is_special"), prop(ObjectAliasMixin, "is_class_private"),
            prop(ObjectAliasMixin, "is_imported"), prop(ObjectAliasMixin, "is_exported"), prop(ObjectAliasMixin, "is_wildcard_exposed")],
    bounds={"name": "1..3 chars over '_a' (covers public, _private, __class_private, __ / ___ special)", "__all__": "absent, [e1] or [e1, 'zz'] with e1 1..3 chars over '_a' (empty __all__ left open)", "public": "None/True/False",
            "parent": "none/module/class", "object kind": tiered("module/function", "module/class/function/attribute"), "alias or object": "both"},
    value_symbolic=["name", "__all__ entry e1", "number of entries", "public flag", "imported", "runtime"], selectors=["parent kind, object kind, alias-or-object (driver-bound)"],
    stubs=STUBS, must_cover=["public", "not-public", "special", "class-private", "exported"],
    grid=lambda seed: [dict(name=n, e1="a", nexports=x, public=-1, imported=i, runtime=True, parent_kind=1, obj_kind=2, is_alias=False) for n in ("a", "_a", "__a", "__") for x in (-1, 1, 2) for i in (False, True)],
)
def predicates(name: str, e1: str, nexports: int, public: int, imported: bool, runtime: bool, parent_kind: int, obj_kind: int, is_alias: bool) -> bool:
    """is_public / is_private / is_special / is_class_private / is_imported / is_exported / is_wildcard_exposed vs the documented table."""
    exports = None if nexports < 0 else [e1, "zz"][:nexports]
    pub = None if public < 0 else bool(public)
    kind = ("module", "class", "function", "attribute")[obj_kind]
    parent = None
    if parent_kind == 1:
        parent = Module("pkg")
        parent.exports = exports
    elif parent_kind == 2:
        top = Module("pkg")
        parent = Class("K")
        top.set_member("K", parent)
    target = {"module": lambda: Module(name), "class": lambda: Class(name), "function": lambda: Function(name), "attribute": lambda: Attribute(name)}[kind]()
    if is_alias:
        holder = Module("other")
        holder.members[name] = target
        target.parent = holder
        obj = Alias(name, target)
    else:
        obj = target
    obj.public = pub
    obj.runtime = runtime
    if parent is not None:
        parent.members[name] = obj  # (set_member would split a dotted key; names are arbitrary strings here)
        obj.parent = parent
        if imported:
            parent.imports[name] = "x." + name
    pk = ("none", "module", "class")[parent_kind]
    exp = exports if pk == "module" else None
    special = name.startswith("__") and name.endswith("__")
    if obj.is_special != special:
        return fail("is_special")
    if obj.is_private != (name.startswith("_") and not special):
        return fail("is_private")
    if bool(obj.is_class_private) != (pk == "class" and name.startswith("__") and not name.endswith("__")):
        return fail("is_class_private")
    if bool(obj.is_imported) != (parent is not None and imported):
        return fail("is_imported")
    if parent is not None and bool(obj.is_exported) != (pk == "module" and bool(exp) and name in exp):
        return fail("is_exported")
    want = _ref_public(name, pub, is_alias, kind, pk, exp, parent is not None and imported)
    if bool(obj.is_public) != want:
        return fail(f"is_public: got {obj.is_public} want {want}")
    if parent is not None:
        ww = _ref_wildcard(name, runtime, is_alias, kind, pk, exp, imported)
        if bool(obj.is_wildcard_exposed) != ww:
            return fail("is_wildcard_exposed")
    cover("public" if want else "not-public")
    if special:
        cover("special")
    if pk == "class" and name.startswith("__") and not name.endswith("__"):
        cover("class-private")
    if pk == "module" and exp and name in exp:
        cover("exported")
    return True


# ============================================================================================ span_slice
TEXT_VARIANTS = (("", ""), ("  ", " "))


def _mk_lines(nlines, variant):
    a, b = TEXT_VARIANTS[variant]
    return [(a + "def f():"), (b + "    '''doc'''"), ("    pass"), "x = 1", "y = 2"][:nlines]


@obligation(
    pid="C01", name="span_slice", timeout=tiered(250, 900),
    pre=lambda nlines, variant, lineno, endlineno, is_module, in_collection: 1 <= nlines <= 5 and -1 <= lineno <= nlines + 1 and -1 <= endlineno <= nlines + 1 and lineno != 0 and endlineno != 0
    and (lineno == -1 or endlineno == -1 or lineno <= endlineno),
    shards=lambda: [(f"nlines={n},module={m}", None, [dict(nlines=n, is_module=m, variant=v) for v in range(len(TEXT_VARIANTS))]) for n in range(1, 6) for m in (False, True)],
    drives=[prop(Object, "lines"), prop(Object, "source"), prop(Object, "lines_collection")],
    bounds={"file": "1..5 lines, two indentation variants of the first lines (driver-bound)", "lineno/endlineno": "None or 1..nlines+1 (may exceed the file by one)"},
    value_symbolic=["lineno", "endlineno", "whether the file is in the lines collection"], selectors=["number of lines, module-or-function, indentation variant (driver-bound)"],
    stubs=STUBS, must_cover=["sliced", "no-lineno", "not-in-collection"],
    grid=lambda seed: [dict(nlines=3, variant=0, lineno=l, endlineno=e, is_module=m, in_collection=True) for l in (-1, 1, 2) for e in (-1, 2, 3) for m in (False, True)],
)
def span_slice(nlines: int, variant: int, lineno: int, endlineno: int, is_module: bool, in_collection: bool) -> bool:
    """obj.lines is exactly the source lines lineno..endlineno (whole file for modules); source is their dedent."""
    import textwrap

    lines = _mk_lines(nlines, variant)
    lc = LinesCollection()
    fp = Path("m.py")
    if in_collection:
        lc[fp] = lines
    mod = Module("m", filepath=fp, lines_collection=lc)
    ln = None if lineno < 0 else lineno
    en = None if endlineno < 0 else endlineno
    if is_module:
        obj = mod
        mod.lineno, mod.endlineno = ln, en
    else:
        obj = Function("f", lineno=ln, endlineno=en)
        mod.set_member("f", obj)
    got = obj.lines
    if not in_collection:
        cover("not-in-collection")
        return got == [] or fail("lines not empty although the file is not in the lines collection")
    if is_module:
        want = lines
    elif ln is None or en is None:
        cover("no-lineno")
        want = []
    else:
        cover("sliced")
        want = [lines[i] for i in range(ln - 1, en) if i < len(lines)]
    if list(got) != want:
        return fail(f"lines: got {got!r} want {want!r}")
    if obj.source != textwrap.dedent("\n".join(want)):
        return fail("source != dedent(join(lines))")
    return True


@obligation(
    pid="C01", name="docstring_slice", timeout=tiered(250, 900),
    pre=lambda nlines, variant, dl, dend: 1 <= nlines <= 5 and 1 <= dl <= dend <= nlines + 1,
    shards=lambda: [(f"nlines={n}", None, [dict(nlines=n, variant=v) for v in range(len(TEXT_VARIANTS))]) for n in range(1, 6)],
    drives=[prop(Docstring, "lines"), prop(Docstring, "source")],
    bounds={"file": "1..5 lines, two indentation variants", "docstring lineno/endlineno": "1 <= lineno <= endlineno <= nlines+1"},
    value_symbolic=["docstring lineno", "docstring endlineno"], selectors=["number of lines, indentation variant (driver-bound)"], stubs=STUBS,
    grid=lambda seed: [dict(nlines=3, variant=1, dl=a, dend=b) for a in (1, 2) for b in (2, 3)],
)
def docstring_slice(nlines: int, variant: int, dl: int, dend: int) -> bool:
    """Docstring.source is exactly the file lines lineno..endlineno of the parent's file."""
    lines = _mk_lines(nlines, variant)
    lc = LinesCollection()
    fp = Path("m.py")
    lc[fp] = lines
    mod = Module("m", filepath=fp, lines_collection=lc)
    obj = Function("f", lineno=1, endlineno=nlines)
    mod.set_member("f", obj)
    ds = Docstring("doc", lineno=dl, endlineno=dend, parent=obj)
    wantd = [lines[i] for i in range(dl - 1, dend) if i < len(lines)]
    if ds.source != "\n".join(wantd):
        return fail(f"Docstring.source: got {ds.source!r} want {wantd!r}")
    return True


# ============================================================================================ visit_skeleton
def _at(node, l, e=None):
    node.lineno = l
    node.end_lineno = l if e is None else e
    node.col_offset = 0
    node.end_col_offset = 1
    return node


def _name(idn, l, ctx=None):
    return _at(ast.Name(id=idn, ctx=ctx or ast.Load()), l)


def _const(v, l, e=None):
    return _at(ast.Constant(value=v), l, e)


def _args(with_self=False, l=1):
    a = [_at(ast.arg(arg="self", annotation=None), l)] if with_self else []
    return ast.arguments(posonlyargs=[], args=a, vararg=None, kwonlyargs=[], kw_defaults=[], kwarg=None, defaults=[])


def _pass(l):
    return _at(ast.Pass(), l)


def _assign(n, l, e=None, value=0):
    return _at(ast.Assign(targets=[_name(n, l, ast.Store())], value=_const(value, l, e), type_comment=None), l, e)


def _funcdef(cls, n, l, e, body, decos=(), with_self=False):
    return _at(cls(name=n, args=_args(with_self, l), body=body, decorator_list=list(decos), returns=None, type_comment=None, type_params=[]), l, e)


def _classdef(n, l, e, body, decos=()):
    return _at(ast.ClassDef(name=n, bases=[], keywords=[], body=body, decorator_list=list(decos), type_params=[]), l, e)


def _deco_node(path, l):
    parts = path.split(".")
    node = _name(parts[0], l)
    for p in parts[1:]:
        node = _at(ast.Attribute(value=node, attr=p, ctx=ast.Load()), l)
    return node


DECOS = {"property": {"property"}, "staticmethod": {"staticmethod"}, "classmethod": {"classmethod"}, "functools.cache": {"cached"},
         "functools.cached_property": {"cached", "property"}, "abc.abstractmethod": {"abstractmethod"}}

KINDS = ["def", "adef", "adef_deco", "def_doc", "class", "class_doc", "class_def", "class_assign", "class_init", "class_init_nested", "class_init_if", "class_init_again", "assign", "annassign", "ann_only", "assign_doc", "import", "importfrom",
         "tc_assign", "tc_import", "if_assign", "else_assign", "try_assign", "for_assign", "with_assign", "all", "all_plus"] + ["deco:" + d for d in DECOS]
KINDS_Q = ["def", "def_doc", "class_def", "class_init", "class_init_if", "assign", "annassign", "assign_doc", "import", "importfrom", "tc_assign", "if_assign", "try_assign", "for_assign", "all",
           "deco:property", "deco:functools.cache", "adef", "adef_deco", "class_init_nested", "class_doc"]


def height(kind, x):
    """Number of source lines the slot occupies (x = symbolic stretch >= 0)."""
    if kind in ("def", "adef", "class", "tc_assign", "tc_import", "if_assign", "for_assign", "with_assign", "assign_doc", "class_assign"):
        return 2 + x
    if kind in ("def_doc", "class_doc", "class_def", "class_init", "class_init_nested", "adef_deco") or kind.startswith("deco:"):
        return 3 + x
    if kind == "class_init_if":
        return 5 + x
    if kind == "class_init_again":
        return 4 + x
    if kind == "else_assign":
        return 4 + x
    if kind == "try_assign":
        return 4 + x
    if kind in ("assign", "annassign"):
        return 1 + x
    return 1  # ann_only, import, importfrom, all, all_plus: single-line statements (stretch ignored)


def build_slot(kind, n, inner, l, x, doc):
    """-> (list of ast statements, list of binding events). Events: dicts understood by the reference model."""
    e = l + height(kind, x) - 1
    ev = []
    if kind in ("def", "adef"):
        cls = ast.FunctionDef if kind == "def" else ast.AsyncFunctionDef
        st = [_funcdef(cls, n, l, e, [_pass(e)])]
        ev.append(dict(name=n, kind="function", lineno=l, endlineno=e, labels={"async"} if kind == "adef" else set(), doc=None))
    elif kind == "def_doc":
        st = [_funcdef(ast.FunctionDef, n, l, e, [_at(ast.Expr(value=_const(doc, l + 1, l + 1 + x)), l + 1, l + 1 + x), _pass(e)])]
        ev.append(dict(name=n, kind="function", lineno=l, endlineno=e, labels=set(), doc=(doc, l + 1, l + 1 + x)))
    elif kind.startswith("deco:"):
        path = kind[5:]
        st = [_funcdef(ast.FunctionDef, n, l + 1 + x, e, [_pass(e)], decos=[_deco_node(path, l)])]
        if "property" in DECOS[path]:
            ev.append(dict(name=n, kind="attribute", lineno_in=(l, l + 1 + x), endlineno=e, labels=set(DECOS[path]), doc=None))
        else:
            ev.append(dict(name=n, kind="function", lineno=l, endlineno=e, labels=set(DECOS[path]), doc=None, decorators=[(path, l)]))
    elif kind == "adef_deco":
        # a DECORATED coroutine function: its decorator-derived labels must not reach any other function
        st = [_funcdef(ast.AsyncFunctionDef, n, l + 1 + x, e, [_pass(e)], decos=[_deco_node("functools.cache", l)])]
        ev.append(dict(name=n, kind="function", lineno=l, endlineno=e, labels={"async", "cached"}, doc=None, decorators=[("functools.cache", l)]))
    elif kind == "class_init_nested":
        # class n:  def __init__(self):  self.o.<inner> = 0   -> binds nothing at class level (the target is an attribute of self.o)
        tgt = _at(ast.Attribute(value=_at(ast.Attribute(value=_name("self", e), attr="o", ctx=ast.Load()), e), attr=inner, ctx=ast.Store()), e)
        init = _funcdef(ast.FunctionDef, "__init__", l + 1, e, [_at(ast.Assign(targets=[tgt], value=_const(0, e), type_comment=None), e)], with_self=True)
        st = [_classdef(n, l, e, [init])]
        ev.append(dict(name=n, kind="class", lineno=l, endlineno=e, labels=set(), doc=None, members={"__init__": dict(kind="function", lineno=l + 1, endlineno=e)}))
    elif kind == "class":
        st = [_classdef(n, l, e, [_pass(e)])]
        ev.append(dict(name=n, kind="class", lineno=l, endlineno=e, labels=set(), doc=None, members={}))
    elif kind == "class_doc":
        st = [_classdef(n, l, e, [_at(ast.Expr(value=_const(doc, l + 1, l + 1 + x)), l + 1, l + 1 + x), _pass(e)])]
        ev.append(dict(name=n, kind="class", lineno=l, endlineno=e, labels=set(), doc=(doc, l + 1, l + 1 + x), members={}))
    elif kind == "class_def":
        st = [_classdef(n, l, e, [_funcdef(ast.FunctionDef, inner, l + 1, e, [_pass(e)], with_self=True)])]
        ev.append(dict(name=n, kind="class", lineno=l, endlineno=e, labels=set(), doc=None, members={inner: dict(kind="function", lineno=l + 1, endlineno=e)}))
    elif kind == "class_assign":
        st = [_classdef(n, l, e, [_assign(inner, e)])]
        ev.append(dict(name=n, kind="class", lineno=l, endlineno=e, labels=set(), doc=None, members={inner: dict(kind="attribute", lineno=e, endlineno=e, labels={"class-attribute", "instance-attribute"})}))
    elif kind == "class_init":
        tgt = _at(ast.Attribute(value=_name("self", e), attr=inner, ctx=ast.Store()), e)
        init = _funcdef(ast.FunctionDef, "__init__", l + 1, e, [_at(ast.Assign(targets=[tgt], value=_const(0, e), type_comment=None), e)], with_self=True)
        st = [_classdef(n, l, e, [init])]
        members = {"__init__": dict(kind="function", lineno=l + 1, endlineno=e)}
        members_attr = dict(kind="attribute", lineno=e, endlineno=e, labels={"instance-attribute"})
        ev.append(dict(name=n, kind="class", lineno=l, endlineno=e, labels=set(), doc=None, members=members, init_attr=(inner, members_attr)))
    elif kind in ("class_init_if", "class_init_again"):
        # class n:            (l)
        #     <inner> = 0     (l+1)   class-level attribute
        #     def __init__(self):  (l+2)
        #         [if cond:]       (l+3, class_init_if only)
        #             self.<inner> = 1   (e)  conditional: does not displace / unconditional: the later binding wins
        tgt = _at(ast.Attribute(value=_name("self", e), attr=inner, ctx=ast.Store()), e)
        self_assign = _at(ast.Assign(targets=[tgt], value=_const(1, e), type_comment=None), e)
        body = [_at(ast.If(test=_name("cond", l + 3), body=[self_assign], orelse=[]), l + 3, e)] if kind == "class_init_if" else [self_assign]
        init = _funcdef(ast.FunctionDef, "__init__", l + 2, e, body, with_self=True)
        st = [_classdef(n, l, e, [_assign(inner, l + 1), init])]
        members = {"__init__": dict(kind="function", lineno=l + 2, endlineno=e)}
        if kind == "class_init_if":
            win = dict(kind="attribute", lineno=l + 1, endlineno=l + 1)
        else:
            win = dict(kind="attribute", lineno=e, endlineno=e)
        ev.append(dict(name=n, kind="class", lineno=l, endlineno=e, labels=set(), doc=None, members=members, init_attr=(inner, win)))
    elif kind == "assign":
        st = [_assign(n, l, e)]
        ev.append(dict(name=n, kind="attribute", lineno=l, endlineno=e, labels={"module-attribute"}, doc=None, value="0"))
    elif kind == "annassign":
        st = [_at(ast.AnnAssign(target=_name(n, l, ast.Store()), annotation=_name("int", l), value=_const(0, l, e), simple=1), l, e)]
        ev.append(dict(name=n, kind="attribute", lineno=l, endlineno=e, labels={"module-attribute"}, doc=None, value="0", annotation="int"))
    elif kind == "ann_only":
        st = [_at(ast.AnnAssign(target=_name(n, l, ast.Store()), annotation=_name("int", l), value=None, simple=1), l, e)]
        ev.append(dict(name=n, kind="attribute", lineno=l, endlineno=e, labels={"module-attribute"}, doc=None, value=None, annotation="int"))
    elif kind == "assign_doc":
        st = [_assign(n, l), _at(ast.Expr(value=_const(doc, l + 1, e)), l + 1, e)]
        ev.append(dict(name=n, kind="attribute", lineno=l, endlineno=l, labels={"module-attribute"}, doc=(doc, l + 1, e), value="0"))
    elif kind == "import":
        st = [_at(ast.Import(names=[_at(ast.alias(name=n, asname=None), l)]), l, e)]
        ev.append(dict(name=n, kind="alias", lineno=l, endlineno=e, target=n, imports=(n, n)))
    elif kind == "importfrom":
        st = [_at(ast.ImportFrom(module="zz", names=[_at(ast.alias(name=n, asname=None), l)], level=0), l, e)]
        ev.append(dict(name=n, kind="alias", lineno=l, endlineno=e, target="zz." + n, imports=(n, "zz." + n)))
    elif kind in ("tc_assign", "tc_import"):
        inner_st = _assign(n, e) if kind == "tc_assign" else _at(ast.Import(names=[_at(ast.alias(name=n, asname=None), e)]), e)
        st = [_at(ast.If(test=_name("TYPE_CHECKING", l), body=[inner_st], orelse=[]), l, e)]
        if kind == "tc_assign":
            ev.append(dict(name=n, kind="attribute", lineno=e, endlineno=e, labels={"module-attribute"}, doc=None, value="0", runtime=False, conditional=True))
        else:
            ev.append(dict(name=n, kind="alias", lineno=e, endlineno=e, target=n, imports=(n, n), runtime=False))
    elif kind == "if_assign":
        st = [_at(ast.If(test=_name("cond", l), body=[_assign(n, e)], orelse=[]), l, e)]
        ev.append(dict(name=n, kind="attribute", lineno=e, endlineno=e, labels={"module-attribute"}, doc=None, value="0", conditional=True))
    elif kind == "else_assign":
        st = [_at(ast.If(test=_name("cond", l), body=[_pass(l + 1)], orelse=[_assign(n, e)]), l, e)]
        ev.append(dict(name=n, kind="attribute", lineno=e, endlineno=e, labels={"module-attribute"}, doc=None, value="0", conditional=True))
    elif kind == "try_assign":
        handler = _at(ast.ExceptHandler(type=_name("E", l + 2), name=None, body=[_assign(n, e, value=1)]), l + 2, e)
        st = [_at(ast.Try(body=[_assign(n, l + 1)], handlers=[handler], orelse=[], finalbody=[]), l, e)]
        ev.append(dict(name=n, kind="attribute", lineno=l + 1, endlineno=l + 1, labels={"module-attribute"}, doc=None, value="0"))
        ev.append(dict(name=n, kind="attribute", lineno=e, endlineno=e, labels={"module-attribute"}, doc=None, value="1", conditional=True))
    elif kind == "for_assign":
        st = [_at(ast.For(target=_name("_i", l, ast.Store()), iter=_name("it", l), body=[_assign(n, e)], orelse=[], type_comment=None), l, e)]
        ev.append(dict(name=n, kind="attribute", lineno=e, endlineno=e, labels={"module-attribute"}, doc=None, value="0"))
    elif kind == "with_assign":
        st = [_at(ast.With(items=[ast.withitem(context_expr=_name("cm", l), optional_vars=None)], body=[_assign(n, e)], type_comment=None), l, e)]
        ev.append(dict(name=n, kind="attribute", lineno=e, endlineno=e, labels={"module-attribute"}, doc=None, value="0"))
    elif kind == "all":
        lst = _at(ast.List(elts=[_const(n, l)], ctx=ast.Load()), l, e)
        st = [_at(ast.Assign(targets=[_name("__all__", l, ast.Store())], value=lst, type_comment=None), l, e)]
        ev.append(dict(name="__all__", kind="attribute", lineno=l, endlineno=e, labels={"module-attribute"}, doc=None, exports_set=[n]))
    elif kind == "all_plus":
        lst = _at(ast.List(elts=[_const(n, l)], ctx=ast.Load()), l, e)
        st = [_at(ast.AugAssign(target=_name("__all__", l, ast.Store()), op=ast.Add(), value=lst), l, e)]
        ev.append(dict(exports_add=[n]))
    else:
        raise KeyError(kind)
    return st, ev


class Recorder(Extension):
    def __init__(self):
        self.events = []

    def on_instance(self, *, node, obj, agent, **kwargs):
        self.events.append(("instance", obj))

    def on_members(self, *, node, obj, agent, **kwargs):
        self.events.append(("members", obj))

    def on_alias(self, *, node, alias, agent, **kwargs):
        self.events.append(("instance", alias))


def reference(events):
    """Reference binding model: ordered binding events -> surviving member table (or None when the statement leaves the case open)."""
    members, collided, imports, exports = {}, set(), {}, None
    for ev in events:
        if "exports_add" in ev:
            if exports is None:
                return None  # `__all__ +=` before `__all__ =`: not a valid module
            exports = exports + ev["exports_add"]
            continue
        nm = ev["name"]
        if nm in members:
            collided.add(nm)
            if ev.get("conditional"):
                if members[nm]["kind"] != "attribute":
                    return None  # conditional re-assignment over a function/class/alias: left open by the statement
                continue  # a conditional re-assignment does not displace an existing attribute
        members[nm] = ev
        if "imports" in ev:
            imports[ev["imports"][0]] = ev["imports"][1]
        if "exports_set" in ev:
            exports = list(ev["exports_set"])
    return members, collided, imports, exports


def check_module(mod, rec, events):
    ref = reference(events)
    if ref is None:
        cover("open-case-skipped")
        return True
    members, collided, imports, exports = ref
    if set(mod.members.keys()) != set(members.keys()):
        return fail(f"member names {sorted(mod.members.keys())} != bound names {sorted(members.keys())}")
    for nm, ev in members.items():
        obj = mod.members[nm]
        if obj.parent is not mod:
            return fail(f"{nm}: wrong parent")
        if obj.name != nm:
            return fail(f"{nm}: wrong name")
        k = "alias" if obj.is_alias else obj.kind.value
        if k != ev["kind"]:
            return fail(f"{nm}: kind {k} != {ev['kind']}")
        if k == "alias":
            if obj.target_path != ev["target"] or obj.alias_lineno != ev["lineno"] or obj.alias_endlineno != ev["endlineno"]:
                return fail(f"{nm}: alias target/span")
            if obj.runtime != ev.get("runtime", True):
                return fail(f"{nm}: alias runtime flag")
            cover("alias")
            continue
        if "lineno_in" in ev:
            if obj.lineno not in ev["lineno_in"]:
                return fail(f"{nm}: lineno {obj.lineno} not in {ev['lineno_in']}")
        elif obj.lineno != ev["lineno"]:
            return fail(f"{nm}: lineno {obj.lineno} != {ev['lineno']}")
        if obj.endlineno != ev["endlineno"]:
            return fail(f"{nm}: endlineno {obj.endlineno} != {ev['endlineno']}")
        if obj.runtime != ev.get("runtime", True):
            return fail(f"{nm}: runtime {obj.runtime}")
        if not ev["labels"] <= obj.labels:
            return fail(f"{nm}: labels {obj.labels} lack {ev['labels']}")
        if nm not in collided:
            if obj.labels != ev["labels"]:
                return fail(f"{nm}: labels {obj.labels} != {ev['labels']}")
            d = ev.get("doc")
            if d is None:
                if obj.docstring is not None:
                    return fail(f"{nm}: unexpected docstring")
            else:
                if obj.docstring is None or obj.docstring.lineno != d[1] or obj.docstring.endlineno != d[2]:
                    return fail(f"{nm}: docstring span")
                import inspect

                if obj.docstring.value != inspect.cleandoc(d[0].rstrip()):
                    return fail(f"{nm}: docstring text")
                cover("docstring")
            if "value" in ev and (None if obj.value is None else str(obj.value)) != ev["value"]:
                return fail(f"{nm}: value")
            if "annotation" in ev and str(obj.annotation) != ev["annotation"]:
                return fail(f"{nm}: annotation")
            if "decorators" in ev:
                got = [(str(dd.value), dd.lineno) for dd in obj.decorators]
                if got != ev["decorators"]:
                    return fail(f"{nm}: decorators {got}")
        if ev["kind"] == "class":
            want = dict(ev.get("members", {}))
            if "init_attr" in ev:
                an, aev = ev["init_attr"]
                if an != "__init__":
                    want[an] = aev
                else:
                    want[an] = aev  # self.__init__ = 0 inside __init__: the later binding (attribute) wins
            if set(obj.members.keys()) != set(want.keys()):
                return fail(f"class {nm}: members {sorted(obj.members.keys())} != {sorted(want.keys())}")
            for mn, mev in want.items():
                mo = obj.members[mn]
                if mo.parent is not obj or mo.kind.value != mev["kind"] or mo.lineno != mev["lineno"] or mo.endlineno != mev["endlineno"]:
                    return fail(f"class {nm}.{mn}: kind/span/parent")
                if "labels" in mev and mo.labels != mev["labels"]:
                    return fail(f"class {nm}.{mn}: labels {mo.labels}")
            cover("class-members")
        cover(ev["kind"] + (":collided" if nm in collided else ""))
        if ev.get("runtime", True) is False:
            cover("type-guarded")
    if mod.imports != imports:
        return fail(f"imports {mod.imports} != {imports}")
    got_exports = None if mod.exports is None else [str(x) for x in mod.exports]
    if got_exports != exports:
        return fail(f"exports {got_exports} != {exports}")
    # event discipline: each object in the tree announced exactly once, parent before members, members-complete after the last member
    ev_list = rec.events
    def idx(kind, o):
        return [i for i, (k, x) in enumerate(ev_list) if k == kind and x is o]
    def walk(o):
        ins = idx("instance", o)
        if len(ins) != 1:
            return fail(f"{o.path}: announced {len(ins)} times")
        if not o.is_alias and o.kind in (Kind.MODULE, Kind.CLASS):
            done = idx("members", o)
            if len(done) != 1:
                return fail(f"{o.path}: members-complete fired {len(done)} times")
            for m in o.members.values():
                mi = idx("instance", m)
                if len(mi) != 1 or not (ins[0] < mi[0] < done[0]):
                    return fail(f"{m.path}: announced outside its parent's instance..members window")
                if not walk(m):
                    return False
        return True
    return walk(mod)


def _skeleton_pre(nslots):
    def pre(k1, k2, k3, n1, n2, n3, i1, l1, x1, g1, x2, g2, x3, doc):
        names = (n1, n2, n3)[:nslots]
        for n in names:
            if not (len(n) == 1 and n in "ab"):
                return False
        if not (len(i1) == 1 and i1 in "ab"):
            return False
        if nslots < 3 and (n3 != "a" or x3 != 0 or g2 != 0):
            return False
        if nslots < 2 and (n2 != "a" or x2 != 0 or g1 != 0):
            return False
        if not (1 <= l1 <= 50 and 0 <= x1 <= 3 and 0 <= x2 <= 3 and 0 <= x3 <= 3 and 0 <= g1 <= 2 and 0 <= g2 <= 2):
            return False
        if TIER == "quick":
            return doc == "d"
        return len(doc) <= 2 and all(c in "d \n" for c in doc) and len(doc) >= 1 and doc[0] == "d"
    return pre


def _run_skeleton(kinds, names, inner, l1, xs, gaps, doc):
    body, events = [], []
    l = l1
    for i, k in enumerate(kinds):
        st, ev = build_slot(k, names[i], inner, l, xs[i], doc)
        body += st
        events += ev
        l = l + height(k, xs[i]) + (gaps[i] if i < len(gaps) else 0)
    tree = ast.Module(body=body, type_ignores=[])
    rec = Recorder()
    v = Visitor("m", Path("m.py"), "", Extensions(rec))
    v.visit(tree)
    return v.current.module, rec, events


def _skeleton_shards(nslots, kinds):
    def mk():
        out = []
        for k1 in kinds:
            cases = []
            for rest in itertools.product(kinds, repeat=nslots - 1):
                ks = [k1, *rest] + ["assign"] * (3 - nslots)
                if "all_plus" in ks and ("all" not in ks or ks.index("all") > ks.index("all_plus")):
                    continue
                cases.append(dict(k1=ks[0], k2=ks[1], k3=ks[2]))
            step = 6
            for j in range(0, len(cases), step):
                out.append((f"slot1={k1},part={j // step}", None, cases[j : j + step]))
        return out
    return mk


def render_source(kinds, names, inner, l1, xs, gaps, doc):
    """Second renderer: the same skeleton as source text (used to validate the hand-built trees and to replay through griffe.visit)."""
    lines = {}
    l = l1

    def put(ln, text):
        lines[ln] = text

    def docstr(ln, e, ind):
        if e == ln:
            put(ln, f"{ind}{doc!r}")
        else:
            put(ln, f"{ind}({doc!r}")
            put(e, f"{ind}'')")  # implicit concatenation: the Constant node spans ln..e
    for i, k in enumerate(kinds):
        n, x = names[i], xs[i]
        e = l + height(k, x) - 1
        if k in ("def", "adef"):
            put(l, ("async " if k == "adef" else "") + f"def {n}():"); put(e, "    pass")
        elif k == "def_doc":
            put(l, f"def {n}():"); docstr(l + 1, l + 1 + x, "    "); put(e, "    pass")
        elif k.startswith("deco:"):
            put(l, "@" + k[5:]); put(l + 1 + x, f"def {n}():"); put(e, "    pass")
        elif k == "class":
            put(l, f"class {n}:"); put(e, "    pass")
        elif k == "class_doc":
            put(l, f"class {n}:"); docstr(l + 1, l + 1 + x, "    "); put(e, "    pass")
        elif k == "class_def":
            put(l, f"class {n}:"); put(l + 1, f"    def {inner}(self):"); put(e, "        pass")
        elif k == "class_assign":
            put(l, f"class {n}:"); put(e, f"    {inner} = 0")
        elif k == "class_init":
            put(l, f"class {n}:"); put(l + 1, "    def __init__(self):"); put(e, f"        self.{inner} = 0")
        elif k == "class_init_nested":
            put(l, f"class {n}:"); put(l + 1, "    def __init__(self):"); put(e, f"        self.o.{inner} = 0")
        elif k == "adef_deco":
            put(l, "@functools.cache"); put(l + 1 + x, f"async def {n}():"); put(e, "    pass")
        elif k == "class_init_if":
            put(l, f"class {n}:"); put(l + 1, f"    {inner} = 0"); put(l + 2, "    def __init__(self):"); put(l + 3, "        if cond:"); put(e, f"            self.{inner} = 1")
        elif k == "class_init_again":
            put(l, f"class {n}:"); put(l + 1, f"    {inner} = 0"); put(l + 2, "    def __init__(self):"); put(e, f"        self.{inner} = 1")
        elif k in ("assign", "annassign"):
            lhs = n if k == "assign" else f"{n}: int"
            if e == l:
                put(l, f"{lhs} = 0")
            else:
                put(l, f"{lhs} = (0"); put(e, ")")
        elif k == "ann_only":
            put(l, f"{n}: int")
        elif k == "assign_doc":
            put(l, f"{n} = 0"); docstr(l + 1, e, "")
        elif k == "import":
            put(l, f"import {n}")
        elif k == "importfrom":
            put(l, f"from zz import {n}")
        elif k == "tc_assign":
            put(l, "if TYPE_CHECKING:"); put(e, f"    {n} = 0")
        elif k == "tc_import":
            put(l, "if TYPE_CHECKING:"); put(e, f"    import {n}")
        elif k == "if_assign":
            put(l, "if cond:"); put(e, f"    {n} = 0")
        elif k == "else_assign":
            put(l, "if cond:"); put(l + 1, "    pass"); put(l + 2, "else:"); put(e, f"    {n} = 0")
        elif k == "try_assign":
            put(l, "try:"); put(l + 1, f"    {n} = 0"); put(l + 2, "except E:"); put(e, f"    {n} = 1")
        elif k == "for_assign":
            put(l, "for _i in it:"); put(e, f"    {n} = 0")
        elif k == "with_assign":
            put(l, "with cm:"); put(e, f"    {n} = 0")
        elif k == "all":
            put(l, f"__all__ = [{n!r}]")
        elif k == "all_plus":
            put(l, f"__all__ += [{n!r}]")
        l = e + 1 + (gaps[i] if i < len(gaps) else 0)
    return "\n".join(lines.get(i, "") for i in range(1, max(lines) + 1)) + "\n"


def _projection(tree):
    out = []
    for node in ast.walk(tree):
        if isinstance(node, (ast.stmt, ast.ExceptHandler)):
            out.append((type(node).__name__, getattr(node, "name", None), node.lineno, node.end_lineno))
        elif isinstance(node, ast.Constant) and isinstance(node.value, str):
            out.append(("str", node.value, node.lineno, node.end_lineno))
    return sorted(out, key=repr)


def _table(mod):
    def row(o):
        if o.is_alias:
            return ("alias", o.target_path, o.alias_lineno, o.alias_endlineno, o.runtime)
        return (o.kind.value, o.lineno, o.endlineno, o.runtime, tuple(sorted(o.labels)), None if o.docstring is None else (o.docstring.value, o.docstring.lineno, o.docstring.endlineno),
                tuple((n, row(m)) for n, m in o.members.items()))
    return row(mod), dict(mod.imports), None if mod.exports is None else [str(x) for x in mod.exports]


def _replay_skeleton(nslots):
    def replay(k1, k2, k3, n1, n2, n3, i1, l1, x1, g1, x2, g2, x3, doc):
        kinds, names, xs, gaps = [k1, k2, k3][:nslots], [n1, n2, n3][:nslots], [x1, x2, x3][:nslots], [g1, g2][: nslots - 1]
        src = render_source(kinds, names, i1, l1, xs, gaps, doc)
        mod_hand, rec, events = _run_skeleton(kinds, names, i1, l1, xs, gaps, doc)
        body = []
        l = l1
        for i, k in enumerate(kinds):
            st, _ = build_slot(k, names[i], i1, l, xs[i], doc)
            body += st
            l = l + height(k, xs[i]) + (gaps[i] if i < len(gaps) else 0)
        hand = ast.Module(body=body, type_ignores=[])
        real = ast.parse(src)
        if _projection(hand) != _projection(real):
            raise HarnessDefect(f"hand-built AST differs from ast.parse of the rendering:\n{src}\n{_projection(hand)}\n{_projection(real)}")
        mod_real = visit("m", Path("m.py"), src)
        if _table(mod_real) != _table(mod_hand):
            raise HarnessDefect(f"visit(source) differs from Visitor(hand-built tree):\n{src}\n{_table(mod_real)}\n{_table(mod_hand)}")
        rec2 = Recorder()
        mod2 = visit("m", Path("m.py"), src, extensions=Extensions(rec2))
        ok = check_module(mod2, rec2, events)
        return (not ok), f"griffe.visit on the rendered source:\n{src}"
    return replay


def _grid_skeleton(nslots, kinds):
    def grid(seed):
        import random

        rnd = random.Random(seed)
        pts = []
        combos = list(itertools.product(kinds, repeat=nslots))
        rnd.shuffle(combos)
        for ks in combos[:60]:
            ks = list(ks) + ["assign"] * (3 - nslots)
            if "all_plus" in ks and ("all" not in ks or ks.index("all") > ks.index("all_plus")):
                continue
            pts.append(dict(k1=ks[0], k2=ks[1], k3=ks[2], n1=rnd.choice("ab"), n2=rnd.choice("ab") if nslots > 1 else "a", n3=rnd.choice("ab") if nslots > 2 else "a",
                            i1=rnd.choice("ab"), l1=rnd.randint(1, 4), x1=rnd.randint(0, 2), g1=rnd.randint(0, 1) if nslots > 1 else 0, x2=rnd.randint(0, 2) if nslots > 1 else 0,
                            g2=rnd.randint(0, 1) if nslots > 2 else 0, x3=rnd.randint(0, 1) if nslots > 2 else 0, doc=tiered("d", rnd.choice(["d", "d\n", "d "]))))
        if nslots >= 2 and "adef_deco" in kinds and "adef" in kinds:
            # process-level state: a decorated coroutine visited first, then plain coroutines (in the same module and in the next one);
            # CrossHair's container proxies do not reproduce in-place mutation of a shared set, so this is checked natively here
            for ks in (["adef_deco", "adef", "assign"], ["adef", "adef", "assign"], ["def", "adef", "assign"]):
                pts.append(dict(k1=ks[0], k2=ks[1], k3=ks[2], n1="a", n2="b", n3="a", i1="b", l1=2, x1=0, g1=0, x2=0, g2=0, x3=0, doc="d"))
        return pts
    return grid


def _make_skeleton(nslots, kinds, suffix):
    @obligation(
        pid="C01", name="visit_skeleton" + suffix, pre=_skeleton_pre(nslots), shards=_skeleton_shards(nslots, kinds), timeout=tiered(280, 2400), path_timeout=60.0,
        drives=[Visitor.visit_module, Visitor.visit_classdef, Visitor.handle_function, Visitor.handle_attribute, Visitor.visit_import, Visitor.visit_importfrom, Visitor.visit_if, Visitor.visit_augassign,
                Visitor.decorators_to_labels, Visitor._get_docstring],
        bounds={"module body": f"{nslots} statement slots", "slot kinds": kinds, "names": "'a' or 'b' per slot (collisions arise by solving); inner member name 'a' or 'b'", "line numbers": "first line 1..50, per-slot stretch 0..3, gaps 0..2 (symbolic)",
                "docstring": tiered("'d'", "1..2 chars over 'd', space, newline")},
        value_symbolic=["every bound name", "first line number, stretch of every slot, gaps between slots (=> every lineno/end_lineno/decorator line)", "docstring text"],
        selectors=["statement kind of every slot (driver-bound, full cross product)"],
        stubs=STUBS + ["hand-built ast trees instead of compile(); validated against ast.parse of a rendering of the same skeleton (grid + every counterexample)"],
        must_cover=["function", "class", "attribute", "alias", "docstring", "type-guarded", "class-members"] + (["attribute:collided"] if nslots > 1 else []),
        grid=_grid_skeleton(nslots, kinds), replay=_replay_skeleton(nslots),
    )
    def visit_skeleton(k1: str, k2: str, k3: str, n1: str, n2: str, n3: str, i1: str, l1: int, x1: int, g1: int, x2: int, g2: int, x3: int, doc: str) -> bool:
        """Real Visitor on a hand-built module AST == reference binding model (members, kinds, spans, labels, docstrings, runtime flag, imports, exports, event order)."""
        ks, ns, xs, gs = [k1, k2, k3][:nslots], [n1, n2, n3][:nslots], [x1, x2, x3][:nslots], [g1, g2][: nslots - 1]
        mod, rec, events = _run_skeleton(ks, ns, i1, l1, xs, gs, doc)
        return check_module(mod, rec, events)

    visit_skeleton.__name__ = "visit_skeleton" + suffix
    return visit_skeleton


_make_skeleton(2, tiered(KINDS_Q, KINDS), "")
if TIER == "thorough":
    _make_skeleton(3, ["def", "class_init", "assign", "annassign", "assign_doc", "importfrom", "tc_assign", "if_assign", "try_assign", "all", "all_plus", "deco:property"], "3")
