"""C02 — function signatures equal CPython's view of the same definition (engine X).

  signature  : real get_parameters + Visitor.handle_function on a hand-built `ast.arguments` whose segment lengths,
               number of defaults, kw-default mask, annotation mask and variadic presence are symbolic; oracle = the
               language rule (defaults right-aligned over posonly+args, kw_defaults index-aligned); replay/validation =
               exec of the rendered def + inspect.signature + griffe.visit on the same text.
  container  : Parameters get/set/del/contains/add vs a list model with symbolic names and indices.
  overloads  : @overload / @property / .setter / .deleter sequences with symbolic names.
"""
from __future__ import annotations

import ast
import inspect
from pathlib import Path

from _griffe.agents.nodes.parameters import get_parameters
from _griffe.agents.visitor import Visitor, visit
from _griffe.enumerations import ParameterKind as PK
from _griffe.extensions.base import Extensions
from _griffe.models import Function, Parameter, Parameters
from vlib.ob import TIER, HarnessDefect, cover, fail, obligation, tiered, prop
from vlib.stubs import plain_error_messages, silence_logging

STUBS = silence_logging() + plain_error_messages()
M = tiered(2, 3)  # max number of positional-only and of keyword-only parameters
MA = tiered(3, 4)  # max number of positional-or-keyword parameters (a default-alignment bug needs more of them than defaults)


def _loc(node, l=1):
    node.lineno = node.end_lineno = l
    node.col_offset = 0
    node.end_col_offset = 1
    return node


def _arg(name, annotated):
    return _loc(ast.arg(arg=name, annotation=_loc(ast.Name(id="int", ctx=ast.Load())) if annotated else None))


def _spec(npo, na, nd, nk, kmask, amask, vararg, kwarg):
    """Concrete description of the parameter list, in source order, with the defaults the language assigns."""
    out = []
    P = npo + na
    bit = 0
    for j in range(P):
        name = f"p{j}" if j < npo else f"a{j - npo}"
        kind = "positional_only" if j < npo else "positional_or_keyword"
        di = j - (P - nd)
        out.append((name, kind, str(100 + di) if di >= 0 else None, bool((amask >> bit) & 1)))
        bit += 1
    if vararg:
        out.append(("v", "var_positional", "()", bool((amask >> bit) & 1)))
    bit += 1
    for i in range(nk):
        out.append((f"k{i}", "keyword_only", str(200 + i) if (kmask >> i) & 1 else None, bool((amask >> bit) & 1)))
        bit += 1
    if kwarg:
        out.append(("kw", "var_keyword", "{}", bool((amask >> bit) & 1)))
    return out


def _arguments(npo, na, nd, nk, kmask, amask, vararg, kwarg):
    bit = 0
    posonly, args = [], []
    for j in range(npo + na):
        a = _arg(f"p{j}" if j < npo else f"a{j - npo}", bool((amask >> bit) & 1))
        (posonly if j < npo else args).append(a)
        bit += 1
    va = _arg("v", bool((amask >> bit) & 1)) if vararg else None
    bit += 1
    kwonly, kwdef = [], []
    for i in range(nk):
        kwonly.append(_arg(f"k{i}", bool((amask >> bit) & 1)))
        kwdef.append(_loc(ast.Constant(value=200 + i)) if (kmask >> i) & 1 else None)
        bit += 1
    ka = _arg("kw", bool((amask >> bit) & 1)) if kwarg else None
    defaults = [_loc(ast.Constant(value=100 + i)) for i in range(nd)]
    return ast.arguments(posonlyargs=posonly, args=args, vararg=va, kwonlyargs=kwonly, kw_defaults=kwdef, kwarg=ka, defaults=defaults)


def _render(spec, is_async, has_ret, in_class):
    parts = []
    kinds = [k for _, k, _, _ in spec]
    for i, (nm, k, d, ann) in enumerate(spec):
        if k == "keyword_only" and "var_positional" not in kinds and (i == 0 or spec[i - 1][1] != "keyword_only"):
            parts.append("*")
        a = ": int" if ann else ""
        if k == "var_positional":
            parts.append("*" + nm + a)
        elif k == "var_keyword":
            parts.append("**" + nm + a)
        else:
            parts.append(nm + a + ((" = " if ann else "=") + d if d is not None else ""))
        if k == "positional_only" and (i + 1 == len(spec) or spec[i + 1][1] != "positional_only"):
            parts.append("/")
    head = ("async " if is_async else "") + f"def f({', '.join(parts)})" + (" -> str" if has_ret else "") + ": ..."
    return ("class C:\n    " + head + "\n") if in_class else head + "\n"


def _sig_cases():
    out = []
    ctxs = tiered(((False, False, 0), (False, False, 0b101101101101), (True, True, 0xFFFF)),
                  ((False, False, 0), (False, False, 0b101101101101), (True, True, 0xFFFF), (True, False, 0b010010010010), (False, True, 0b101101101101)))
    for npo in range(M + 1):
        for na in range(MA + 1):
            cases = []
            for nd in range(npo + na + 1):
                for nk in range(M + 1):
                    for kmask in range(2 ** nk):
                        for vararg in (False, True):
                            for kwarg in (False, True):
                                for is_async, in_class, am in ctxs:
                                    cases.append(dict(npo=npo, na=na, nd=nd, nk=nk, kmask=kmask, amask=am, vararg=vararg, kwarg=kwarg, is_async=is_async, has_ret=bool(am), in_class=in_class))
            step = max(1, len(cases) // tiered(2, 6) + 1)
            for j in range(0, len(cases), step):
                out.append((f"posonly={npo},args={na},part={j // step}", None, cases[j : j + step]))
    return out


@obligation(
    pid="C02", name="signature", timeout=tiered(280, 2400), shards=_sig_cases,
    pre=lambda npo, na, nd, nk, kmask, amask, vararg, kwarg, is_async, has_ret, in_class, m0, m1, m2, m3, m4, m5, m6, q0, q1, q2: True,
    drives=[get_parameters, Visitor.handle_function, prop(Parameter, "required")],
    bounds={"positional-only": f"0..{M}", "positional-or-keyword": f"0..{MA}", "defaults": "0..(posonly+args), spanning the / boundary", "keyword-only": f"0..{M} with every kw_defaults None-mask",
            "*args/**kwargs": "present or not", "annotations": "none / a mixed subset / all parameters annotated", "return annotation": "present iff some annotation", "context": "module-level def / async method in a class (thorough: more mixes)"},
    value_symbolic=["the identity of every default expression (m0..m6 for positional defaults, q0..q2 for keyword-only defaults: unconstrained ints carried by the ast.Constant nodes) - which default lands on which parameter is decided for all values at once"],
    selectors=["all segment lengths, number of defaults, kw_defaults mask, variadic presence, annotation mask, context: full cross product bound by the driver, one symbolic analysis each"],
    stubs=STUBS + ["hand-built ast.arguments instead of compile(); validated against exec+inspect.signature and griffe.visit of the rendering"],
    must_cover=["default-spans-posonly-boundary", "kwonly-without-default-after-default"],
    grid=lambda seed: [dict(npo=a, na=b, nd=c, nk=2, kmask=k, amask=5, vararg=v, kwarg=not v, is_async=False, has_ret=True, in_class=False, m0=100, m1=101, m2=102, m3=103, m4=104, m5=105, m6=106, q0=200, q1=201, q2=202)
                       for a in (0, 1, 2) for b in (0, 2) for c in range(0, a + b + 1) for k in (0, 1, 2) for v in (False, True)],
    replay=lambda **kw: _sig_replay(**kw),
)
def signature(npo: int, na: int, nd: int, nk: int, kmask: int, amask: int, vararg: bool, kwarg: bool, is_async: bool, has_ret: bool, in_class: bool,
              m0: int, m1: int, m2: int, m3: int, m4: int, m5: int, m6: int, q0: int, q1: int, q2: int) -> bool:
    """Names, order, kinds, which parameters have defaults (and which default lands on which), annotations, return annotation == the language rule."""
    want = _spec(npo, na, nd, nk, kmask, amask, vararg, kwarg)
    # (1) get_parameters with symbolic default identities
    ms, qs = [m0, m1, m2, m3, m4, m5, m6], [q0, q1, q2]
    node = _arguments(npo, na, nd, nk, kmask, amask, vararg, kwarg)
    for i, d in enumerate(node.defaults):
        d.value = ms[i]
    for i, d in enumerate(node.kw_defaults):
        if d is not None:
            d.value = qs[i]
    got = get_parameters(node)
    if len(got) != len(want):
        return fail(f"get_parameters: {len(got)} parameters, expected {len(want)}")
    for (gn, gann, gk, gd), (wn, wk, wd, wann) in zip(got, want):
        if gn != wn or gk.name != wk:
            return fail(f"get_parameters: name/kind {gn}/{gk} expected {wn}/{wk}")
        if wd is None or wk.startswith("var_"):
            if gd != wd:
                return fail(f"get_parameters: default of {gn} is {gd!r}, expected {wd}")
        else:
            idx = int(wd)
            expect = ms[idx - 100] if idx < 200 else qs[idx - 200]
            if not isinstance(gd, ast.Constant) or gd.value != expect:
                return fail(f"get_parameters: wrong default expression lands on {gn}")
        if (gann is not None) != wann:
            return fail(f"get_parameters: annotation presence of {gn}")
    # (2) through the visitor (concrete default markers 100+i / 200+i): Function.parameters
    node = _arguments(npo, na, nd, nk, kmask, amask, vararg, kwarg)
    cls = ast.AsyncFunctionDef if is_async else ast.FunctionDef
    fn = _loc(cls(name="f", args=node, body=[_loc(ast.Pass())], decorator_list=[], returns=_loc(ast.Name(id="str", ctx=ast.Load())) if has_ret else None, type_comment=None, type_params=[]))
    body = [_loc(ast.ClassDef(name="C", bases=[], keywords=[], body=[fn], decorator_list=[], type_params=[]))] if in_class else [fn]
    v = Visitor("m", Path("m.py"), "", Extensions())
    v.visit(ast.Module(body=body, type_ignores=[]))
    mod = v.current.module
    f = mod["C.f"] if in_class else mod["f"]
    if not f.is_function or ("async" in f.labels) != is_async:
        return fail("function kind/async label")
    ps = list(f.parameters)
    if [p.name for p in ps] != [w[0] for w in want]:
        return fail(f"Function.parameters names {[p.name for p in ps]}")
    for p, (wn, wk, wd, wann) in zip(ps, want):
        if p.kind.name != wk:
            return fail(f"{wn}: kind {p.kind}")
        if (None if p.default is None else str(p.default)) != wd:
            return fail(f"{wn}: default {p.default} expected {wd}")
        if p.required != (wd is None):
            return fail(f"{wn}: required")
        if (None if p.annotation is None else str(p.annotation)) != ("int" if wann else None):
            return fail(f"{wn}: annotation {p.annotation}")
    if (None if f.returns is None else str(f.returns)) != ("str" if has_ret else None):
        return fail("returns")
    if nd > na and npo > 0:
        cover("default-spans-posonly-boundary")
    if nk == 2 and kmask == 1:
        cover("kwonly-without-default-after-default")
    return True


def _sig_replay(npo, na, nd, nk, kmask, amask, vararg, kwarg, is_async, has_ret, in_class, **_markers):
    """CPython's own view: exec the rendered def, inspect.signature; and griffe.visit on the same text."""
    spec = _spec(npo, na, nd, nk, kmask, amask, vararg, kwarg)
    src = _render(spec, is_async, has_ret, in_class)
    ns = {}
    exec(src, ns)  # noqa: S102
    fobj = ns["C"].f if in_class else ns["f"]
    sig = inspect.signature(fobj)
    cp = [(p.name, p.kind.name.lower(), None if p.default is inspect.Parameter.empty else str(p.default), p.annotation is not inspect.Parameter.empty) for p in sig.parameters.values()]
    mine = [(n, k, (None if k.startswith("var_") else d), a) for n, k, d, a in spec]
    if cp != mine:
        raise HarnessDefect(f"reference rule disagrees with CPython for `{src.strip()}`: {cp} vs {mine}")
    mod = visit("m", Path("m.py"), src)
    f = mod["C.f"] if in_class else mod["f"]
    gr = [(p.name, p.kind.name, None if (p.default is None or p.kind.name.startswith("var_")) else str(p.default), p.annotation is not None) for p in f.parameters]
    if gr != cp:
        return True, f"griffe.visit(`{src.strip()}`) reports {gr}, CPython's inspect.signature reports {cp}"
    if (f.returns is not None) != (sig.return_annotation is not inspect.Signature.empty):
        return True, f"return annotation differs for `{src.strip()}`"
    return False, f"griffe.visit agrees with inspect.signature for `{src.strip()}`"


# ================================================================================ container
def _nm(s):
    return 1 <= len(s) <= 2 and all(c in "ab*" for c in s)


def _pin(d):
    """Arguments an operation does not read are bound concretely (no pointless case split)."""
    for j in (1, 2):
        if d[f"op{j}"] in (0, 3):
            d[f"k{j}"] = "a"
        else:
            d[f"i{j}"] = 0
    return d


@obligation(
    pid="C02", name="container", timeout=tiered(250, 900),
    pre=lambda op1, op2, k1, k2, i1, i2, n0, n1: _nm(k1) and _nm(k2) and -3 <= i1 <= 3 and -3 <= i2 <= 3,
    shards=lambda: [(f"ops={a},{b}", None, [_pin(dict(op1=a, op2=b, n0=x, n1=y)) for x, y in (("a", "b"), ("b", "a"))]) for a in range(7) for b in range(7)],
    drives=[Parameters.__getitem__, Parameters.__setitem__, Parameters.__delitem__, Parameters.__contains__, Parameters.add, Parameters.__len__, Parameters.__iter__],
    bounds={"initial container": "two parameters with distinct 1-char names over 'ab'", "operations": "2 from {get-by-index, get-by-name, set-by-name, set-by-index, del-by-name, contains, add}", "keys": "1..2 chars over 'a', 'b', '*' (leading stars are part of the documented lookup)", "indices": "-3..3"},
    value_symbolic=["keys k1,k2", "indices i1,i2", "initial names"], selectors=["the two operations (driver-bound)"], stubs=[],
    grid=lambda seed: [dict(op1=a, op2=b, k1="*a", k2="b", i1=0, i2=-1, n0="a", n1="b") for a in range(7) for b in (1, 4)],
)
def container(op1: int, op2: int, k1: str, k2: str, i1: int, i2: int, n0: str, n1: str) -> bool:
    """Parameters behaves like an ordered list keyed by name (leading '*' ignored in string keys)."""
    ps = Parameters(Parameter(n0), Parameter(n1))
    model = [n0, n1]
    fresh = 0
    for op, k, i in ((op1, k1, i1), (op2, k2, i2)):
        key = k.lstrip("*")
        if op == 0:  # get by index
            try:
                got = ps[i].name
            except IndexError:
                got = IndexError
            try:
                want = model[i]
            except IndexError:
                want = IndexError
            if got != want:
                return fail("get by index")
        elif op == 1:  # get by name
            try:
                got = ps[k].name
            except KeyError:
                got = KeyError
            want = key if key in model else KeyError
            if got != want:
                return fail(f"get by name {k!r}")
        elif op == 2:  # set by name (replace or append)
            fresh += 1
            newp = Parameter(key if key else "z")
            ps[k] = newp
            if key in model:
                model[model.index(key)] = newp.name
            else:
                model.append(newp.name)
        elif op == 3:  # set by index
            newp = Parameter("n" + str(fresh))
            fresh += 1
            try:
                ps[i] = newp
                ok = True
            except IndexError:
                ok = False
            try:
                model[i] = newp.name
                mok = True
            except IndexError:
                mok = False
            if ok != mok:
                return fail("set by index")
        elif op == 4:  # delete by name
            try:
                del ps[k]
                ok = True
            except KeyError:
                ok = False
            if key in model:
                model.remove(key)
                mok = True
            else:
                mok = False
            if ok != mok:
                return fail(f"del by name {k!r}")
        elif op == 5:  # contains
            if (k in ps) != (key in model):
                return fail(f"contains {k!r}")
        else:  # add
            try:
                ps.add(Parameter(key if key else "z"))
                ok = True
            except ValueError:
                ok = False
            name = key if key else "z"
            if name in model:
                mok = False
            else:
                model.append(name)
                mok = True
            if ok != mok:
                return fail("add")
        if [p.name for p in ps] != model or len(ps) != len(model):
            return fail(f"container {[p.name for p in ps]} != model {model}")
    return True


# ================================================================================ overloads / properties
DK = ["plain", "overload", "property", "setter", "deleter", "overload+staticmethod", "deco+overload", "dotted+setter", "dotted+deleter"]


def _deco(kind, name, line=1):
    if kind == "plain":
        return []
    if kind == "overload+staticmethod":  # @typing.overload stacked above another decorator
        return _deco("overload", name, line) + [_loc(ast.Name(id="staticmethod", ctx=ast.Load()), line)]
    if kind == "deco+overload":  # another decorator stacked above @typing.overload
        return [_loc(ast.Name(id="some_decorator", ctx=ast.Load()), line)] + _deco("overload", name, line)
    if kind in ("dotted+setter", "dotted+deleter"):  # another (dotted, hence resolvable-looking) decorator stacked ABOVE @<name>.setter / @<name>.deleter
        return [_loc(ast.Attribute(value=_loc(ast.Name(id="dec", ctx=ast.Load()), line), attr="orate", ctx=ast.Load()), line)] + _deco(kind.split("+")[1], name, line)
    if kind == "overload":
        return [_loc(ast.Attribute(value=_loc(ast.Name(id="typing", ctx=ast.Load()), line), attr="overload", ctx=ast.Load()), line)]
    if kind == "property":
        return [_loc(ast.Name(id="property", ctx=ast.Load()), line)]
    return [_loc(ast.Attribute(value=_loc(ast.Name(id=name, ctx=ast.Load()), line), attr=kind, ctx=ast.Load()), line)]


@obligation(
    pid="C02", name="overloads_properties", timeout=tiered(250, 1200),
    pre=lambda d1, d2, d3, n1, n2, n3, t2, t3, in_class: all(len(n) == 1 and n in "ab" for n in (n1, n2, n3, t2, t3)),
    shards=lambda: [(f"decorators={a},{b},{c}", None, [dict(d1=a, d2=b, d3=c, in_class=ic) for ic in (False, True)]) for a in DK[:3] for b in tiered(DK[:8], DK) for c in tiered(DK[:8], DK)],
    drives=[Visitor.handle_function, Visitor.get_base_property, Visitor.decorators_to_labels],
    bounds={"definitions": 3, "decorator of each": tiered(DK[:8], DK), "names": "1 char over 'ab' (definition names and the property named by .setter/.deleter)", "context": "module or class body"},
    value_symbolic=["names of the three definitions", "property names referred to by setter/deleter decorators"], selectors=["decorator kind of each definition, module-or-class (driver-bound)"],
    stubs=STUBS + ["hand-built ast"], must_cover=["overload-attached", "setter-attached", "deleter-attached", "accessor-below-another-decorator"],
    grid=lambda seed: [dict(d1="overload", d2="overload", d3="plain", n1="a", n2="a", n3="a", t2="a", t3="a", in_class=True), dict(d1="property", d2="setter", d3="deleter", n1="a", n2="a", n3="a", t2="a", t3="a", in_class=True)],
)
def overloads_properties(d1: str, d2: str, d3: str, n1: str, n2: str, n3: str, t2: str, t3: str, in_class: bool) -> bool:
    """Overloads attach to the next implementation of the same name, in order; setters/deleters attach to their property without replacing it."""
    defs = [(d1, n1, n1), (d2, n2, t2), (d3, n3, t3)]
    body = []
    for i, (dk, nm, tgt) in enumerate(defs):
        fn = _loc(ast.FunctionDef(name=nm, args=ast.arguments(posonlyargs=[], args=[], vararg=None, kwonlyargs=[], kw_defaults=[], kwarg=None, defaults=[]), body=[_loc(ast.Pass(), 10 * i + 2)],
                                  decorator_list=_deco(dk, tgt, 10 * i + 1), returns=None, type_comment=None, type_params=[]), 10 * i + 1)
        fn.end_lineno = 10 * i + 2
        body.append(fn)
    if in_class:
        body = [_loc(ast.ClassDef(name="C", bases=[], keywords=[], body=body, decorator_list=[], type_params=[]))]
    v = Visitor("m", Path("m.py"), "", Extensions())
    v.visit(ast.Module(body=body, type_ignores=[]))
    scope = v.current.module["C"] if in_class else v.current.module
    # reference model
    members, pending = {}, {}
    for i, (dk, nm, tgt) in enumerate(defs):
        line = 10 * i + 1
        if "overload" in dk:
            pending.setdefault(nm, []).append(line)
        elif dk == "property":
            members[nm] = dict(kind="attribute", line=line, labels={"property"}, setter=None, deleter=None)
        elif dk.split("+")[-1] in ("setter", "deleter") and tgt == nm and nm in members and members[nm]["kind"] == "attribute" and "property" in members[nm]["labels"]:
            acc = dk.split("+")[-1]
            members[nm][acc] = line
            members[nm]["labels"] = members[nm]["labels"] | {"writable" if acc == "setter" else "deletable"}
            if "+" in dk:
                cover("accessor-below-another-decorator")
        else:
            # plain function (a .setter/.deleter decorator that names no existing property of that name is an ordinary decorator)
            members[nm] = dict(kind="function", line=line, overloads=pending.pop(nm, None))
    if set(scope.members.keys()) != set(members.keys()):
        return fail(f"members {sorted(scope.members.keys())} != {sorted(members.keys())}")
    for nm, w in members.items():
        o = scope.members[nm]
        if o.kind.value != w["kind"]:
            return fail(f"{nm}: kind {o.kind.value} != {w['kind']}")
        if w["kind"] == "function":
            if o.lineno != w["line"]:
                return fail(f"{nm}: surviving definition line {o.lineno} != {w['line']}")
            got = None if not o.overloads else [f.lineno for f in o.overloads]
            if got != w["overloads"]:
                return fail(f"{nm}: overloads {got} != {w['overloads']}")
            if got:
                cover("overload-attached")
        else:
            if not w["labels"] <= o.labels:
                return fail(f"{nm}: labels {o.labels} lack {w['labels']}")
            for which in ("setter", "deleter"):
                f = getattr(o, which)
                if (None if f is None else f.lineno) != w[which]:
                    return fail(f"{nm}: {which} {None if f is None else f.lineno} != {w[which]}")
                if f is not None:
                    cover(which + "-attached")
    # overloads still pending are kept in the scope's overload table, never silently attached elsewhere
    for nm, lines in pending.items():
        got = [f.lineno for f in scope.overloads.get(nm, [])]
        if got != lines:
            return fail(f"pending overloads of {nm}: {got} != {lines}")
    return True
