"""C03 — stored expressions render back to equivalent Python code (REDUCED claim, see DESIGN.md §4 C03 / §5).

  lambda_markers     : engine S. `ExprLambda.iterate` is interpreted from its current source over a parameter list whose
                       KINDS are z3 values (validity of the parameter list is a constraint); on every feasible path the
                       yielded pieces are concrete, CPython's own parser reads them back and the solver decides whether any
                       kind vector that follows this path differs from what was parsed (`/` and `*` marker machine).
  string_annotations : engine X. The parse_strings decision of get_expression/_build_constant/_build_subscript:
                       symbolic module the name `annotations` is imported from, symbolic module `Literal` is imported from,
                       symbolic explicit parse_strings, every position of the string constant (selector).
  shapes             : engine X, solver-driven case analysis. Every node type of `expressions._node_map` as parent of every
                       node type as child (hand-built ast, element counts / optional-part presence / operator index
                       symbolic), `str(expr)` read back by CPython's parser and compared with the tree it was built from;
                       flat and non-flat iteration concatenate to `str(expr)`; every ast.Name / attribute name is present
                       as an ExprName element, in order.
"""
from __future__ import annotations

import ast
import time

import z3

import _griffe.expressions as E
from _griffe.enumerations import ParameterKind as PK
from _griffe.expressions import ExprLambda, ExprName, ExprParameter, get_expression
from _griffe.models import Alias, Class, Module
from vlib import ob as OB
from vlib.ob import HarnessDefect, Obligation, cover, fail, obligation, tiered, prop
from vlib.pysymex import Codec, Engine, Interp, SRecord, SV, Unsupported
from vlib.stubs import plain_error_messages, silence_logging

STUBS = silence_logging() + plain_error_messages()

# ============================================================================================ lambda_markers (engine S)
KIND_LIST = [PK.positional_only, PK.positional_or_keyword, PK.var_positional, PK.keyword_only, PK.var_keyword]
KIND_NAMES = [k.name for k in KIND_LIST]
KINDS = Codec("kind", KIND_LIST)
NL = tiered(3, 4)
L_SHARDS = [(n, mask) for n in range(NL + 1) for mask in range(2 ** n)]


def _lambda_cons(ks, mask):
    n = len(ks)
    cons = []
    for i, k in enumerate(ks):
        cons += [k >= 0, k <= 4]
        has_def = bool((mask >> i) & 1)
        # get_parameters gives *a the default "()" and **k the default "{}" (truthy strings); others: None or an expression
        if not has_def:
            cons += [k != 2, k != 4]
    for i in range(n):
        for j in range(i + 1, n):
            cons.append(ks[i] <= ks[j])
            cons.append(z3.Implies(ks[i] == ks[j], z3.And(ks[i] != 2, ks[i] != 4)))
            if (mask >> i) & 1 and not (mask >> j) & 1:
                cons.append(z3.Not(z3.And(ks[i] <= 1, ks[j] <= 1)))  # non-default positional after a default one
    return cons


def _parse_lambda(s, n):
    """CPython's reading of the rendered text: list of (kind index, has_default) per parameter, or None."""
    try:
        tree = ast.parse(s, mode="eval").body
    except SyntaxError:
        return None
    if not isinstance(tree, ast.Lambda):
        return None
    a = tree.args
    out = []
    pos = [*a.posonlyargs, *a.args]
    nd = len(a.defaults)
    for i, p in enumerate(pos):
        out.append((p.arg, 0 if i < len(a.posonlyargs) else 1, i >= len(pos) - nd))
    if a.vararg:
        out.append((a.vararg.arg, 2, True))
    for p, d in zip(a.kwonlyargs, a.kw_defaults):
        out.append((p.arg, 3, d is not None))
    if a.kwarg:
        out.append((a.kwarg.arg, 4, True))
    if [o[0] for o in out] != [f"p{i}" for i in range(n)]:
        return None
    return [(k, d) for _, k, d in out]


def _lambda_run(shard, twin, excluded):
    n, mask = L_SHARDS[shard]
    eng = Engine()
    interp = Interp(eng)
    t0 = time.time()
    ks = [z3.Int(f"kind{i}") for i in range(n)]
    base = _lambda_cons(ks, mask)
    cover_ = set()
    cex = None

    def decode(m):
        return [KIND_NAMES[m.eval(k, model_completion=True).as_long()] for k in ks]

    def thunk():
        params = [SRecord(ExprParameter, name=f"p{i}", kind=SV(ks[i], KINDS), annotation=None, default=("0" if (mask >> i) & 1 else None)) for i in range(n)]
        lam = SRecord(ExprLambda, parameters=params, body="0")
        return list(interp.call_function(ExprLambda.iterate, [lam], {"flat": True}))

    eng.pc = list(base)
    if not eng.check():
        return {"engine": "S", "shard": f"n={n},defaults={mask:b}", "verdict": "excluded" if not twin else "confirmed", "counterexample": None, "paths": 0, "confirmed_paths": 0, "solver_checks": eng.queries,
                "solver_seconds": round(eng.solver_time, 3), "cover": ["no valid parameter list with this default mask"], "message": "no valid parameter list for this (n, default mask)", "twin": twin}
    for pieces in eng.explore(thunk, base):
        if not all(isinstance(p, str) for p in pieces):
            raise Unsupported(f"non-string piece yielded: {pieces!r}")
        s = "".join(pieces)
        parsed = _parse_lambda(s, n)
        if twin:
            if eng.check():
                cex = {"n": n, "mask": mask, "kinds": decode(eng.model())}
                break
            continue
        if parsed is None:
            cover_.add("unparsable-rendering")
            if eng.check():
                cex = {"n": n, "mask": mask, "kinds": decode(eng.model())}
                break
            continue
        bad = [ks[i] != parsed[i][0] for i in range(n)]
        # default presence of non-variadic parameters is concrete on both sides
        defaults_ok = all(parsed[i][0] in (2, 4) or parsed[i][1] == bool((mask >> i) & 1) for i in range(n))
        q = z3.Or(bad) if bad else z3.BoolVal(False)
        if not defaults_ok:
            q = z3.BoolVal(True)
        if eng.check(q):
            cex = {"n": n, "mask": mask, "kinds": decode(eng.model(q))}
            break
        cover_.add("path-parses-back")
        if "/" in s:
            cover_.add("slash-marker")
        if "*, " in s:
            cover_.add("bare-star-marker")
    return {"engine": "S", "shard": f"n={n},defaults={mask:b}", "verdict": "refuted" if cex else "confirmed", "counterexample": cex, "paths": eng.paths, "confirmed_paths": eng.paths,
            "solver_checks": eng.queries, "solver_seconds": round(eng.solver_time, 3), "wall_s": round(time.time() - t0, 2), "cpu_s": round(time.time() - t0, 2), "cover": sorted(cover_), "message": "", "twin": twin}


def _ref_lambda_text(kinds, mask):
    """Reference rendering of the parameter list (language rule for the `/` and `*` markers)."""
    parts = []
    for i, k in enumerate(kinds):
        if k == "keyword_only" and "var_positional" not in kinds and (i == 0 or kinds[i - 1] != "keyword_only"):
            parts.append("*")
        nm = f"p{i}"
        if k == "var_positional":
            parts.append("*" + nm)
        elif k == "var_keyword":
            parts.append("**" + nm)
        else:
            parts.append(nm + ("=0" if (mask >> i) & 1 else ""))
        if k == "positional_only" and (i + 1 == len(kinds) or kinds[i + 1] != "positional_only"):
            parts.append("/")
    return "lambda" + (" " if parts else "") + ", ".join(parts) + ": 0"


def _lambda_native(n, mask, kinds):
    """Native: the real ExprLambda rendered by the real iterate, read back by CPython."""
    params = [ExprParameter(f"p{i}", kind=PK[kinds[i]], default=("0" if (mask >> i) & 1 else None)) for i in range(n)]
    s = str(ExprLambda(params, "0"))
    parsed = _parse_lambda(s, n)
    want = [(KIND_NAMES.index(k), bool((mask >> i) & 1)) for i, k in enumerate(kinds)]
    if parsed is None:
        return fail(f"ExprLambda with kinds {kinds} renders as {s!r}, which is not a lambda with these parameters (SyntaxError or other names)")
    for i, ((pk, pd), (wk, wd)) in enumerate(zip(parsed, want)):
        if pk != wk or (wk not in (2, 4) and pd != wd):
            return fail(f"ExprLambda with kinds {kinds} renders as {s!r}: parameter p{i} reads back as {KIND_NAMES[pk]} (default={pd}), expected {KIND_NAMES[wk]} (default={wd})")
    return True


def _lambda_replay(n, mask, kinds):
    """Public API: visit `x = lambda ...: 0`, render the stored value, compare syntax trees."""
    from _griffe.agents.visitor import visit

    src = _ref_lambda_text(kinds, mask)
    try:
        want = ast.parse(src, mode="eval")
    except SyntaxError as e:
        raise HarnessDefect(f"reference rendering {src!r} of kinds {kinds} is not valid Python: {e}") from e
    m = visit("m", filepath=None, code="x = " + src + "\n")  # type: ignore[arg-type]
    got = str(m["x"].value)
    try:
        back = ast.parse(got, mode="eval")
    except SyntaxError:
        return True, f"`x = {src}` is stored as {got!r}, which is a syntax error"
    if ast.dump(back) != ast.dump(want):
        return True, f"`x = {src}` is stored as {got!r}: different signature"
    return False, f"`x = {src}` round-trips as {got!r}"


def _lambda_valid(n, mask, kinds):
    ks = [KIND_NAMES.index(k) for k in kinds]
    if len(ks) != n or ks != sorted(ks) or ks.count(2) > 1 or ks.count(4) > 1:
        return False
    for i in range(n):
        if not (mask >> i) & 1 and ks[i] in (2, 4):
            return False
        for j in range(i + 1, n):
            if (mask >> i) & 1 and not (mask >> j) & 1 and ks[i] <= 1 and ks[j] <= 1:
                return False
    return True


def _lambda_grid(seed):
    import itertools

    pts = []
    for n in range(0, 4):
        for ks in itertools.product(range(5), repeat=n):
            for mask in range(2 ** n):
                kinds = [KIND_NAMES[k] for k in ks]
                if _lambda_valid(n, mask, kinds):
                    pts.append(dict(n=n, mask=mask, kinds=kinds))
    return pts


def _lambda_validate():
    """Interpreter (concrete mode) == native on every valid parameter list of the grid."""
    eng = Engine()
    interp = Interp(eng)
    mism = []
    pts = _lambda_grid(0)
    for p in pts:
        n, mask, kinds = p["n"], p["mask"], p["kinds"]
        native = "".join(str(x) for x in ExprLambda([ExprParameter(f"p{i}", kind=PK[kinds[i]], default=("0" if (mask >> i) & 1 else None)) for i in range(n)], "0").iterate(flat=True))

        def thunk():
            params = [SRecord(ExprParameter, name=f"p{i}", kind=PK[kinds[i]], annotation=None, default=("0" if (mask >> i) & 1 else None)) for i in range(n)]
            return "".join(interp.call_function(ExprLambda.iterate, [SRecord(ExprLambda, parameters=params, body="0")], {"flat": True}))

        got = list(eng.explore(thunk))
        if got != [native]:
            mism.append((kinds, mask, native, got))
    return len(pts), mism


def _lambda_entry(shard, twin, excluded):
    try:
        if shard == 0 and not twin:
            checked, mism = _lambda_validate()
            if mism:
                return {"verdict": "error", "message": f"interpreter validation failed: {mism[:3]}", "paths": 0, "solver_checks": 0, "solver_seconds": 0}
            res = _lambda_run(shard, twin, excluded)
            res["extra"] = {"validation_cases(interpreter vs native ExprLambda.iterate)": checked}
            return res
        if twin:
            # reachability witness on a shard that has valid parameter lists
            return _lambda_run(L_SHARDS.index((2, 3)), True, excluded)
        return _lambda_run(shard, twin, excluded)
    except Unsupported as e:
        return {"verdict": "unknown", "message": f"interpreter: unsupported construct: {e}", "paths": 0, "solver_checks": 0, "solver_seconds": 0}


OB.REGISTRY["lambda_markers"] = Obligation(
    pid="C03", name="lambda_markers", engine="S", fn=_lambda_native, pre=_lambda_valid, run=_lambda_entry, module=__name__,
    doc="every valid lambda parameter list renders to text that CPython parses back to the same kinds, order and default presence (`/` and `*` markers)",
    shards=lambda: [(f"n={n},defaults={mask:b}", None) for n, mask in L_SHARDS], timeout=tiered(120, 900), drives=[ExprLambda.iterate, E._yield],
    bounds={"parameters": f"0..{NL}", "kinds": "all 5, any valid order (validity of the list is a z3 constraint)", "defaults": "every presence mask (driver-bound); variadics carry the visitor's truthy default"},
    value_symbolic=["kind of every parameter (z3 ints over the ParameterKind codec); all kind vectors that follow one interpreter path are decided by one query"],
    selectors=["(number of parameters, default-presence mask): one shard each"],
    assumptions=["pysymex agrees with CPython on the interpreted subset (differential pass over every valid parameter list with n<=3 on every run)", "oracle = CPython's parser applied to the concrete text each path yields"],
    must_cover=["path-parses-back", "slash-marker", "bare-star-marker"], grid=_lambda_grid, replay=_lambda_replay,
)


# ============================================================================================ string_annotations (engine X)
POSITIONS = ["bare", "subscript", "tuple-in-subscript", "nested-subscript", "binop", "list-in-subscript", "sibling-after-literal", "under-nested-literal", "attribute-literal", "call-argument", "lambda-default", "lambda-body", "dict-value-in-subscript"]


def _name(i):
    return ast.Name(id=i, ctx=ast.Load())


def _sub(left, sl):
    return ast.Subscript(value=left, slice=sl, ctx=ast.Load())


def _strnode():
    return ast.Constant(value="ab")


def _position_tree(pos):
    """-> (ast node, whether the string sits under the name `L`)"""
    s = _strnode()
    if pos == "bare":
        return s, False
    if pos == "subscript":
        return _sub(_name("L"), s), True
    if pos == "tuple-in-subscript":
        return _sub(_name("L"), ast.Tuple(elts=[_name("int"), s], ctx=ast.Load())), True
    if pos == "nested-subscript":
        return _sub(_name("G"), _sub(_name("L"), s)), True
    if pos == "binop":
        return ast.BinOp(left=s, op=ast.BitOr(), right=ast.Constant(value=None)), False
    if pos == "list-in-subscript":
        return _sub(_name("G"), ast.Tuple(elts=[ast.List(elts=[s], ctx=ast.Load()), _name("int")], ctx=ast.Load())), False
    if pos == "sibling-after-literal":
        return _sub(_name("G"), ast.Tuple(elts=[_sub(_name("L"), ast.Constant(value="zz")), s], ctx=ast.Load())), False
    if pos == "under-nested-literal":
        return _sub(_name("L"), _sub(_name("G"), s)), True
    if pos == "attribute-literal":
        return _sub(ast.Attribute(value=_name("T"), attr="Literal", ctx=ast.Load()), s), True
    if pos == "call-argument":
        return ast.Call(func=_name("G"), args=[s], keywords=[]), False
    if pos == "lambda-default":
        # a default VALUE is never an annotation, whatever surrounds the lambda
        lam = ast.Lambda(args=ast.arguments(posonlyargs=[], args=[ast.arg(arg="x")], vararg=None, kwonlyargs=[], kw_defaults=[], kwarg=None, defaults=[s]), body=_name("x"))
        return _sub(_name("G"), ast.Tuple(elts=[_name("int"), lam], ctx=ast.Load())), "never"
    if pos == "lambda-body":
        lam = ast.Lambda(args=ast.arguments(posonlyargs=[], args=[], vararg=None, kwonlyargs=[], kw_defaults=[], kwarg=None, defaults=[]), body=s)
        return _sub(_name("L"), lam), True
    if pos == "dict-value-in-subscript":
        return _sub(_name("L"), ast.Dict(keys=[_name("k")], values=[s])), True
    raise KeyError(pos)


ANN_MODS = ["__future__", "__future", "future", "typing"]
LIT_MODS = ["typing", "typing_extensions", "typin", "extensions"]


def _sa_pre(pos, ann_mod, ann_as, lit_mod, lit_as, ps):
    return 0 <= ps <= 2


@obligation(
    pid="C03", name="string_annotations", timeout=tiered(200, 900), path_timeout=60.0,
    shards=lambda: [(f"pos={p}", None, [dict(pos=p, ann_mod=a, lit_mod=l) for a in ANN_MODS for l in LIT_MODS]) for p in POSITIONS],
    pre=_sa_pre,
    drives=[get_expression, E._build_constant, E._build_subscript, E._build_tuple, prop(Module, "imports_future_annotations")],
    bounds={"position of the string constant": POSITIONS, "module the name `annotations` is imported from": ANN_MODS, "module the subscripted name is imported from": LIT_MODS, "explicit parse_strings": "None / True / False"},
    value_symbolic=["ps (int)", "ann_as / lit_as (bool: imported under another name)"],
    selectors=["position, module names (driver-bound; free symbolic module strings made every path time out: hashing in `canonical_path in {...}` realises them)"], stubs=STUBS + ["hand-built ast expression nodes"],
    must_cover=["parsed-as-code", "kept-as-string:future", "kept-as-string:literal", "kept-as-string:explicit"],
    grid=lambda seed: [dict(pos=p, ann_mod=a, ann_as=False, lit_mod=l, lit_as=la, ps=ps) for p in POSITIONS for a in ("__future__", "futur") for l, la in (("typing", False), ("typing_extensions", True), ("typin", False)) for ps in (0, 1, 2)],
    replay=lambda **kw: _sa_replay(**kw),
)
def string_annotations(pos: str, ann_mod: str, ann_as: bool, lit_mod: str, lit_as: bool, ps: int) -> bool:
    """A string constant is parsed as code iff (explicit parse_strings, else: the module does not import annotations from __future__) and it is not under typing(_extensions).Literal[...]."""
    m = Module("m")
    # `from <ann_mod> import annotations [as a]`
    m.set_member("a" if ann_as else "annotations", Alias("a" if ann_as else "annotations", ann_mod + ".annotations", lineno=1))
    # `from <lit_mod> import Literal [as L]` / `import <lit_mod> as T`; G is an unrelated generic
    if not lit_as:
        m.set_member("Literal", Alias("Literal", lit_mod + ".Literal", lineno=2))
    m.set_member("L", Alias("L", lit_mod + ".Literal", lineno=2))
    m.set_member("T", Alias("T", lit_mod, lineno=3))
    m.set_member("G", Alias("G", "typing.List", lineno=4))
    node, under_l = _position_tree(pos)
    expr = get_expression(node, m, parse_strings=[None, True, False][ps])
    flat = list(expr.iterate(flat=True)) if not isinstance(expr, str) else [expr]
    parsed = any(isinstance(x, ExprName) and x.name == "ab" for x in flat)
    kept = any(isinstance(x, str) and x == "'ab'" for x in flat)
    if parsed == kept:
        return fail(f"string constant neither parsed nor kept exactly once: {flat!r}")
    future = ann_mod == "__future__"  # CPython enables postponed evaluation whatever the `as` name is
    is_literal = under_l is True and (lit_mod == "typing" or lit_mod == "typing_extensions")
    want = (ps == 1 or (ps == 0 and not future)) and not is_literal and under_l != "never"
    if parsed != want:
        return fail(f"pos={pos} from {ann_mod} import annotations{' as a' if ann_as else ''}; Literal from {lit_mod!r}; parse_strings={[None, True, False][ps]}: string parsed as code={parsed}, expected {want}")
    if parsed:
        cover("parsed-as-code")
    elif is_literal:
        cover("kept-as-string:literal")
    elif ps == 2:
        cover("kept-as-string:explicit")
    else:
        cover("kept-as-string:future")
    return True


def _sa_replay(pos, ann_mod, ann_as, lit_mod, lit_as, ps):
    """Public API: visit a module with the corresponding imports and an annotated attribute; ps is only reachable as None there."""
    from _griffe.agents.visitor import visit

    if ps != 0:
        # an explicit parse_strings is only reachable through get_expression: the native harness run is the replay
        OB.LAST_FAIL.clear()
        ok = string_annotations(pos, ann_mod, ann_as, lit_mod, lit_as, ps)
        return (not ok), "get_expression called directly: " + "; ".join(OB.LAST_FAIL[-1:])
    node, under_l = _position_tree(pos)
    ast.fix_missing_locations(node)
    src = f"from {ann_mod} import annotations{' as a' if ann_as else ''}\n"
    src += (f"from {lit_mod} import Literal\n" if not lit_as else "") + f"from {lit_mod} import Literal as L\nimport {lit_mod} as T\nfrom typing import List as G\nx: {ast.unparse(node)} = 0\n"
    if ann_mod == "__future__":
        compile(src, "m", "exec")
    m = visit("m", filepath=None, code=src)  # type: ignore[arg-type]
    flat = list(m["x"].annotation.iterate(flat=True)) if not isinstance(m["x"].annotation, str) else [m["x"].annotation]
    parsed = any(isinstance(x, ExprName) and x.name == "ab" for x in flat)
    future = ann_mod == "__future__"  # CPython enables postponed evaluation whatever the `as` name is
    want = (not future) and not (under_l is True and lit_mod in ("typing", "typing_extensions")) and under_l != "never"
    return parsed != want, f"{src!r}: annotation pieces {[str(x) for x in flat]} (string parsed as code={parsed}, expected {want})"


# ============================================================================================ shapes (engine X)
BINOPS = [ast.Add, ast.Pow, ast.BitOr, ast.Sub, ast.Mult, ast.Div, ast.FloorDiv, ast.Mod, ast.MatMult, ast.LShift, ast.RShift, ast.BitXor, ast.BitAnd]
UNOPS = [ast.USub, ast.Not, ast.Invert, ast.UAdd]
CMPOPS = [ast.Eq, ast.NotIn, ast.IsNot, ast.NotEq, ast.Lt, ast.LtE, ast.Gt, ast.GtE, ast.Is, ast.In]
BOOLOPS = [ast.And, ast.Or]

# kind -> (number of child positions as a function of (n, f), builder)
# every builder takes (kids: list of ast nodes for its child positions, n: count, k: operator / variant index, f: flag bits)


def _leafs(prefix, cnt):
    return [_name(f"{prefix}{i}") for i in range(cnt)]


def _store(nm):
    return ast.Name(id=nm, ctx=ast.Store())


def _comp(kids, n, f):
    """n generators (1..2); kids: iter of generator 0, then `if` conditions of generator 0 (count = f & 3 capped at 2)."""
    nifs = min(f & 3, 2)
    gens = []
    for g in range(max(1, min(n, 2))):
        if g == 0:
            gens.append(ast.comprehension(target=_store("t0"), iter=kids[0], ifs=list(kids[1 : 1 + nifs]), is_async=int(bool(f & 4))))
        else:
            gens.append(ast.comprehension(target=_store("t1"), iter=_name("it1"), ifs=[], is_async=0))
    return gens


def _b_attribute(kids, n, k, f):
    node = kids[0]
    for i in range(max(1, min(n, 3))):
        node = ast.Attribute(value=node, attr=f"at{i}", ctx=ast.Load())
    return node


def _b_binop(kids, n, k, f):
    return ast.BinOp(left=kids[0], op=BINOPS[k % len(BINOPS)](), right=kids[1])


def _b_boolop(kids, n, k, f):
    cnt = max(2, min(n, 3))
    return ast.BoolOp(op=BOOLOPS[k % 2](), values=[*kids[:2], *_leafs("v", cnt - 2)])


def _b_call(kids, n, k, f):
    # kids: func, first positional, starred value, keyword value, ** value
    args = []
    cnt = max(0, min(n, 3))
    if cnt >= 1:
        args.append(kids[1])
        args += _leafs("arg", cnt - 1)
    if f & 1:
        args.append(ast.Starred(value=kids[2], ctx=ast.Load()))
    kws = []
    if f & 2:
        kws.append(ast.keyword(arg="kw", value=kids[3]))
    if f & 4:
        kws.append(ast.keyword(arg=None, value=kids[4]))
    if f & 8:
        kws.append(ast.keyword(arg="kx", value=_name("w")))
    return ast.Call(func=kids[0], args=args, keywords=kws)


def _b_compare(kids, n, k, f):
    cnt = max(1, min(n, 3))
    comps = [kids[1], *_leafs("c", cnt - 1)]
    return ast.Compare(left=kids[0], ops=[CMPOPS[(k + i) % len(CMPOPS)]() for i in range(cnt)], comparators=comps)


def _b_constant(kids, n, k, f):
    return ast.Constant(value=[n, "s", None, True, False, ..., b"b", "it's", 'q"', 10 ** 20][k % 10])


def _b_dict(kids, n, k, f):
    cnt = max(0, min(n, 3))
    keys, vals = [], []
    for i in range(cnt):
        if i == 0:
            keys.append(kids[0])
            vals.append(kids[1])
        else:
            keys.append(_name(f"k{i}"))
            vals.append(_name(f"v{i}"))
    if f & 1:
        keys.append(None)
        vals.append(kids[2])
    return ast.Dict(keys=keys, values=vals)


def _b_dictcomp(kids, n, k, f):
    return ast.DictComp(key=kids[0], value=kids[1], generators=_comp(kids[2:], n, f))


def _b_generatorexp(kids, n, k, f):
    return ast.GeneratorExp(elt=kids[0], generators=_comp(kids[1:], n, f))


def _b_listcomp(kids, n, k, f):
    return ast.ListComp(elt=kids[0], generators=_comp(kids[1:], n, f))


def _b_setcomp(kids, n, k, f):
    return ast.SetComp(elt=kids[0], generators=_comp(kids[1:], n, f))


def _b_ifexp(kids, n, k, f):
    return ast.IfExp(body=kids[0], test=kids[1], orelse=kids[2])


def _b_joinedstr(kids, n, k, f):
    vals = []
    if f & 1:
        vals.append(ast.Constant(value="t "))
    vals.append(ast.FormattedValue(value=kids[0], conversion=(114 if f & 2 else -1), format_spec=(ast.JoinedStr(values=[ast.Constant(value=">3")]) if f & 4 else None)))
    cnt = max(0, min(n, 2))
    for i in range(cnt):
        vals.append(ast.Constant(value=f" m{i} "))
        vals.append(ast.FormattedValue(value=_name(f"fv{i}"), conversion=-1, format_spec=None))
    return ast.JoinedStr(values=vals)


def _b_lambda(kids, n, k, f):
    cnt = max(0, min(n, 2))
    args = [ast.arg(arg=f"x{i}") for i in range(cnt)]
    defaults = [kids[1]] if (f & 1 and cnt) else []
    return ast.Lambda(args=ast.arguments(posonlyargs=[], args=args, vararg=None, kwonlyargs=[], kw_defaults=[], kwarg=None, defaults=defaults), body=kids[0])


def _b_list(kids, n, k, f):
    cnt = max(0, min(n, 3))
    return ast.List(elts=([kids[0], *_leafs("e", cnt - 1)] if cnt else []), ctx=ast.Load())


def _b_set(kids, n, k, f):
    cnt = max(1, min(n, 3))
    return ast.Set(elts=[kids[0], *_leafs("e", cnt - 1)])


def _b_tuple(kids, n, k, f):
    cnt = max(0, min(n, 3))
    return ast.Tuple(elts=([kids[0], *_leafs("e", cnt - 1)] if cnt else []), ctx=ast.Load())


def _b_name(kids, n, k, f):
    return _name("nm")


def _b_namedexpr(kids, n, k, f):
    return ast.NamedExpr(target=_store("w"), value=kids[0])


def _b_slice(kids, n, k, f):
    # a slice only exists inside a subscript: G[<slice>] / G[<slice>, e]
    sl = ast.Slice(lower=kids[0] if f & 1 else None, upper=kids[1] if f & 2 else None, step=kids[2] if f & 4 else None)
    if f & 8:
        sl = ast.Tuple(elts=[sl, _name("e")], ctx=ast.Load())
    return _sub(_name("G"), sl)


def _b_starred(kids, n, k, f):
    # a starred expression only exists inside a display or a call
    return ast.List(elts=[ast.Starred(value=kids[0], ctx=ast.Load())], ctx=ast.Load()) if not f & 1 else ast.Tuple(elts=[_name("e"), ast.Starred(value=kids[0], ctx=ast.Load())], ctx=ast.Load())


def _b_subscript(kids, n, k, f):
    cnt = max(1, min(n, 3))
    sl = kids[1] if cnt == 1 else ast.Tuple(elts=[kids[1], *_leafs("i", cnt - 1)], ctx=ast.Load())
    return _sub(kids[0], sl)


def _b_unaryop(kids, n, k, f):
    return ast.UnaryOp(op=UNOPS[k % 4](), operand=kids[0])


def _b_yield(kids, n, k, f):
    return ast.Yield(value=kids[0] if f & 1 else None)


def _b_yieldfrom(kids, n, k, f):
    return ast.YieldFrom(value=kids[0])


def _b_keyword(kids, n, k, f):
    return ast.Call(func=_name("fn"), args=[], keywords=[ast.keyword(arg="kw", value=kids[0])])


def _b_formatted(kids, n, k, f):
    return ast.JoinedStr(values=[ast.FormattedValue(value=kids[0], conversion=(115 if f & 1 else -1), format_spec=(ast.JoinedStr(values=[ast.Constant(value="^9")]) if f & 2 else None))])


def _b_comprehension(kids, n, k, f):
    return ast.ListComp(elt=_name("el"), generators=_comp(kids, n, f))


# node type -> (label, number of child positions, builder)
KINDS_TABLE = {
    ast.Attribute: ("Attribute", 1, _b_attribute), ast.BinOp: ("BinOp", 2, _b_binop), ast.BoolOp: ("BoolOp", 2, _b_boolop), ast.Call: ("Call", 5, _b_call),
    ast.Compare: ("Compare", 2, _b_compare), ast.comprehension: ("comprehension", 3, _b_comprehension), ast.Constant: ("Constant", 0, _b_constant), ast.Dict: ("Dict", 3, _b_dict),
    ast.DictComp: ("DictComp", 5, _b_dictcomp), ast.FormattedValue: ("FormattedValue", 1, _b_formatted), ast.GeneratorExp: ("GeneratorExp", 4, _b_generatorexp), ast.IfExp: ("IfExp", 3, _b_ifexp),
    ast.JoinedStr: ("JoinedStr", 1, _b_joinedstr), ast.keyword: ("keyword", 1, _b_keyword), ast.Lambda: ("Lambda", 2, _b_lambda), ast.List: ("List", 1, _b_list), ast.ListComp: ("ListComp", 4, _b_listcomp),
    ast.Name: ("Name", 0, _b_name), ast.NamedExpr: ("NamedExpr", 1, _b_namedexpr), ast.Set: ("Set", 1, _b_set), ast.SetComp: ("SetComp", 4, _b_setcomp), ast.Slice: ("Slice", 3, _b_slice),
    ast.Starred: ("Starred", 1, _b_starred), ast.Subscript: ("Subscript", 2, _b_subscript), ast.Tuple: ("Tuple", 1, _b_tuple), ast.UnaryOp: ("UnaryOp", 1, _b_unaryop), ast.Yield: ("Yield", 1, _b_yield),
    ast.YieldFrom: ("YieldFrom", 1, _b_yieldfrom),
}
BY_LABEL = {lab: (npos, b) for lab, npos, b in KINDS_TABLE.values()}
UNMAPPED = sorted(t.__name__ for t in E._node_map if t not in KINDS_TABLE)
LABELS = sorted(BY_LABEL)


def _build_tree(P, pos, C, n, k, f, cn, ck, cf):
    """Parent of kind P whose child position `pos` holds a child of kind C (its own positions hold leaf names); other positions hold leaf names."""
    npos, pb = BY_LABEL[P]
    cnpos, cb = BY_LABEL[C]
    child = cb([_name(f"c{i}") for i in range(cnpos)], cn, ck, cf)
    kids = [child if i == pos else _name(f"p{i}") for i in range(npos)]
    return pb(kids, n, k, f)


def _dump(node):
    return ast.dump(node)


def _expected_names(node):
    """Names (and attribute names) in source order."""
    out = []

    class V(ast.NodeVisitor):
        def visit_Name(self, nd):
            out.append(nd.id)

        def visit_Attribute(self, nd):
            self.visit(nd.value)
            out.append(nd.attr)

        def visit_DictComp(self, nd):
            self.visit(nd.key)
            self.visit(nd.value)
            for g in nd.generators:
                self.visit(g)

        def _comp(self, nd):
            self.visit(nd.elt)
            for g in nd.generators:
                self.visit(g)

        visit_ListComp = visit_SetComp = visit_GeneratorExp = _comp

        def visit_Dict(self, nd):
            for key, val in zip(nd.keys, nd.values):
                if key is not None:
                    self.visit(key)
                self.visit(val)

        def visit_IfExp(self, nd):
            self.visit(nd.body)
            self.visit(nd.test)
            self.visit(nd.orelse)

        def visit_Lambda(self, nd):
            for d in nd.args.defaults:
                self.visit(d)
            self.visit(nd.body)

        def visit_Call(self, nd):
            self.visit(nd.func)
            for a in nd.args:
                self.visit(a)
            for kw in nd.keywords:
                self.visit(kw.value)

    V().visit(node)
    return out


def _render_checks(node, label):
    """The assertions of the property on one tree; returns '' or a failure text. `node` is a complete expression tree."""
    m = Module("m")
    expr = get_expression(node, m, parse_strings=False)
    s = str(expr)
    flat = [expr] if isinstance(expr, str) else list(expr.iterate(flat=True))
    joined = "".join(x if isinstance(x, str) else x.name for x in flat)
    if joined != s:
        return f"{label}: flat pieces {flat!r} concatenate to {joined!r}, str() is {s!r}"
    if not isinstance(expr, str):
        nonflat = "".join(str(x) for x in expr.iterate(flat=False))
        if nonflat != s:
            return f"{label}: non-flat pieces concatenate to {nonflat!r}, str() is {s!r}"
        if any(not isinstance(x, (str, ExprName)) for x in flat):
            return f"{label}: flat iteration yields a non-flat element: {flat!r}"
    got_names = [x.name for x in flat if isinstance(x, ExprName)]
    want_names = _expected_names(node)
    if got_names != want_names:
        return f"{label}: {s!r}: name elements {got_names}, names in the source expression {want_names}"
    try:
        back = ast.parse(s, mode="eval").body
    except SyntaxError as e:
        # attribute values are right-hand sides of assignments, where `yield x` and `*a, b` need no parentheses
        try:
            back = ast.parse("_ = " + s).body[0].value  # type: ignore[attr-defined]
        except SyntaxError:
            return f"{label}: renders as {s!r}: {e.msg}"
    if _dump(back) != _dump(node):
        return f"{label}: renders as {s!r}, which parses to a different tree ({ast.unparse(back)!r} vs source {ast.unparse(node)!r})"
    return ""


def _strip(s):
    return "".join(c for c in s if c not in "() ")


# (n, k, f) ranges (inclusive) each node kind actually uses; unused dimensions are pinned to 0 by the precondition
SPACE = {
    "Attribute": ((1, 3), (0, 0), (0, 0)), "BinOp": ((0, 0), (0, 12), (0, 0)), "BoolOp": ((2, 3), (0, 1), (0, 0)), "Call": ((0, 3), (0, 0), (0, 15)), "Compare": ((1, 3), (0, 9), (0, 0)),
    "comprehension": ((1, 2), (0, 0), (0, 7)), "ListComp": ((1, 2), (0, 0), (0, 7)), "SetComp": ((1, 2), (0, 0), (0, 7)), "GeneratorExp": ((1, 2), (0, 0), (0, 7)), "DictComp": ((1, 2), (0, 0), (0, 7)),
    "Constant": ((0, 1), (0, 9), (0, 0)), "Dict": ((0, 3), (0, 0), (0, 1)), "IfExp": ((0, 0), (0, 0), (0, 0)), "JoinedStr": ((0, 2), (0, 0), (0, 7)), "keyword": ((0, 0), (0, 0), (0, 0)),
    "FormattedValue": ((0, 0), (0, 0), (0, 3)), "Name": ((0, 0), (0, 0), (0, 0)), "NamedExpr": ((0, 0), (0, 0), (0, 0)), "YieldFrom": ((0, 0), (0, 0), (0, 0)), "Lambda": ((0, 2), (0, 0), (0, 1)),
    "List": ((0, 3), (0, 0), (0, 0)), "Tuple": ((0, 3), (0, 0), (0, 0)), "Set": ((1, 3), (0, 0), (0, 0)), "Slice": ((0, 0), (0, 0), (0, 15)), "Starred": ((0, 0), (0, 0), (0, 1)),
    "Subscript": ((1, 3), (0, 0), (0, 0)), "UnaryOp": ((0, 0), (0, 3), (0, 0)), "Yield": ((0, 0), (0, 0), (0, 1)),
}
OPERATOR_KINDS = {"BinOp", "BoolOp", "UnaryOp", "Compare", "IfExp", "Lambda", "NamedExpr", "Yield", "YieldFrom", "Starred", "GeneratorExp", "Tuple"}
REP_KIDS = {"Name", "Tuple", "BinOp", "GeneratorExp", "IfExp", "Lambda", "Yield", "NamedExpr", "Constant", "Starred"}
REP = {"Call": (2, 0, 2), "Slice": (0, 0, 3), "Dict": (2, 0, 0), "JoinedStr": (1, 0, 1), "Lambda": (1, 0, 0), "Yield": (0, 0, 1)}


def _configs(kind):
    (n0, n1), (k0, k1), (f0, f1) = SPACE[kind]
    allc = [(n, k, f) for n in range(n0, n1 + 1) for k in range(k0, k1 + 1) for f in range(f0, f1 + 1)]
    rep = REP.get(kind, (min(n1, max(n0, 2)), k0, min(f1, max(f0, 1)) if kind in ("comprehension", "ListComp", "SetComp", "GeneratorExp", "DictComp") else f0))
    allc.remove(rep)
    return [rep, *allc]  # configuration 0 is a representative one


CFG = {kind: _configs(kind) for kind in SPACE}
THOROUGH = OB.TIER == "thorough"


def _concrete(fn, *args):
    """Realise the (int) arguments - the engine forks over their feasible values - then run fn natively."""
    from vlib.stubs import _is_tracing, realize_value

    vals = [realize_value(a) for a in args]
    if _is_tracing():
        from crosshair.tracers import NoTracing

        with NoTracing():
            return fn(*vals)
    return fn(*vals)


def _tree(P, pos, C, cfg, ccfg):
    return _build_tree(P, pos, C, *CFG[P][cfg], *CFG[C][ccfg])


def _only_parens(P, pos, C, cfg, ccfg):
    if C == "GeneratorExp":
        return False  # a generator expression carries its own parentheses (or is the sole argument of a call): losing them is not this finding
    node = _tree(P, pos, C, cfg, ccfg)
    if not _valid_tree(node):
        return False
    s = str(get_expression(node, Module("m"), parse_strings=False))
    u = ast.unparse(node)
    return _strip(s) == _strip(u) and s.count("(") < u.count("(") and bool(_render_checks(node, ""))


def fstring_conversion_or_format_spec(P, pos, C, cfg, ccfg):
    """Known-finding region helper: an f-string whose replacement field has a `!r`-style conversion or a format spec."""
    def has(kind, c):
        f = CFG[kind][c][2]
        return (kind == "JoinedStr" and f & 6) or (kind == "FormattedValue" and f & 3)

    return _concrete(lambda a, b: bool(has(P, a) or has(C, b)), cfg, ccfg)


def only_parentheses_missing(P, pos, C, cfg, ccfg):
    """Known-finding region helper: griffe's text equals CPython's own unparse of the tree except for parentheses/blanks,
    and it has fewer parentheses (i.e. the ONLY thing wrong is a missing pair of parentheses around an operand)."""
    return _concrete(_only_parens, P, pos, C, cfg, ccfg)


def _shape_cases():
    out = []
    for P in LABELS:
        npos = BY_LABEL[P][0]
        if npos == 0:
            out.append((f"{P}", None, [dict(P=P, pos=0, C="Name")]))
            continue
        for pos in range(npos):
            out.append((f"{P}[{pos}]", None, [dict(P=P, pos=pos, C=C) for C in LABELS]))
    return out


def _shape_pre(P, pos, C, cfg, ccfg):
    if not (0 <= cfg < len(CFG[P]) and 0 <= ccfg < len(CFG[C])):
        return False
    if THOROUGH:
        # the full product where both are operator-like; elsewhere the first 12 configurations of each side (the kinds with more - calls,
        # comparisons, slices, comprehensions - are fully covered against a representative partner by the quick clauses below)
        if (P in OPERATOR_KINDS and C in OPERATOR_KINDS) or (cfg < 12 and ccfg < 12):
            return True
    # quick: every parent configuration with a representative child of 10 kinds; the first 6 configurations of every child kind
    # under a representative parent; the 6 x 6 product where both are operator-like (precedence interplay)
    if ccfg == 0 and (cfg == 0 or C in REP_KIDS):
        return True
    if cfg == 0 and ccfg < 6:
        return True
    return cfg < 6 and ccfg < 6 and P in OPERATOR_KINDS and C in OPERATOR_KINDS


def _valid_tree(node):
    """Is this a tree CPython's own parser can produce (so that 'the source expression' exists)? Decided by CPython: unparse -> parse -> same dump."""
    try:
        ast.fix_missing_locations(node)
        u = ast.unparse(node)
        return _dump(ast.parse(u, mode="eval").body) == _dump(node)
    except (SyntaxError, ValueError, TypeError):
        return False


def _shape_body(P, pos, C, cfg, ccfg):
    node = _tree(P, pos, C, cfg, ccfg)
    if not _valid_tree(node):
        cover("not-a-parser-tree")
        return True  # not a tree CPython's parser can produce (e.g. a starred expression as a dict key): outside the property
    (n, _k, f), (cn, _ck, _cf) = CFG[P][cfg], CFG[C][ccfg]
    msg = _render_checks(node, f"{P}[{pos}]={C} (n, k, f)={CFG[P][cfg]} child (n, k, f)={CFG[C][ccfg]}")
    if msg:
        return fail(msg)
    cover("round-trips")
    if (C == "Tuple" and cn == 1) or (P == "Tuple" and n == 1):
        cover("one-element-tuple")
    if P == "Subscript" and n >= 2:
        cover("implicit-tuple-in-subscript")
    if P == "Slice" and f & 4:
        cover("slice-with-step")
    return True


@obligation(
    pid="C03", name="shapes", timeout=tiered(400, 3000), path_timeout=60.0, shards=_shape_cases, pre=_shape_pre,
    drives=[get_expression, E._build, E._yield, E._join] + [getattr(E, n).iterate for n in dir(E) if n.startswith("Expr") and isinstance(getattr(E, n), type) and "iterate" in vars(getattr(E, n))],
    bounds={"tree": "parent node (every type in expressions._node_map) with one child position holding a child node (every type), all other operands are names: depth 2",
            "configurations (count, operator/variant, presence mask) per kind": {kd: dict(zip(("count", "operator/variant", "presence mask"), sp)) for kd, sp in SPACE.items()},
            "product": "thorough: the quick product plus 12 x 12 configurations everywhere and the full product where both are operator-like; quick: every parent configuration with a representative child of 10 kinds, the first 6 configurations of every child kind under a representative parent, 6 x 6 where both are operator-like"},
    value_symbolic=["cfg, ccfg: index of the parent's / child's configuration = (element count, operator or constant index, presence mask: slice bounds, starred / keyword / ** arguments, ** dict entry, comprehension ifs, async, f-string text)"],
    selectors=["parent kind, child position, child kind (driver-bound: full cross product)"],
    stubs=STUBS + ["hand-built ast nodes; a tree is only considered if CPython can produce it (ast.unparse -> ast.parse gives the same tree)",
                   "the two int arguments are realised (engine forks over every feasible value) before the code under test runs, which then executes natively on the concrete tree"],
    assumptions=["oracle = CPython's parser (ast.parse of str(expr) compared with the tree the expression was built from)", "this obligation is solver-driven case analysis: the engine certifies that the case split over configurations is exhaustive; per path everything is concrete"],
    must_cover=["round-trips", "one-element-tuple", "implicit-tuple-in-subscript", "slice-with-step"],
    grid=lambda seed: [dict(P=P, pos=0, C=C, cfg=0, ccfg=0) for P in LABELS for C in ("Name", "Tuple", "Call", "Subscript")],
)
def shapes(P: str, pos: int, C: str, cfg: int, ccfg: int) -> bool:
    """str(expr) parses back to the tree the expression was built from; flat/non-flat pieces concatenate to str(expr); every name is an ExprName element."""
    if UNMAPPED:
        return fail(f"expressions._node_map has node types this harness does not build: {UNMAPPED}")
    return _concrete(_shape_body, P, pos, C, cfg, ccfg)
