"""C04 — names in expressions resolve to the object Python scoping binds them to (engine X).

  relative_imports : relative_to_absolute vs CPython's own importlib._bootstrap._resolve_name on symbolic level / module depth.
  import_forms     : Visitor.visit_import / visit_importfrom on hand-built nodes with symbolic names: alias name, target path, import map.
  scope_walk       : ExprName(name, parent=scope).canonical_path for a solver-chosen name from every scope of a small package
                     (module, class body, nested class body, method) vs Python's rule: own class namespace, then module globals
                     (never enclosing class bodies, never the parent package), else unchanged.
  attribute_chain  : a.b.c resolves segment by segment from the root.
"""
from __future__ import annotations

import ast
import importlib._bootstrap as BOOT
from pathlib import Path

from _griffe.agents.nodes.imports import relative_to_absolute
from _griffe.agents.visitor import Visitor
from _griffe.collections import ModulesCollection
from _griffe.expressions import ExprAttribute, ExprName
from _griffe.extensions.base import Extensions
from _griffe.models import Alias, Attribute, Class, Function, Module, Object, Parameter, Parameters
from vlib.ob import TIER, cover, fail, obligation, tiered, prop
from vlib.stubs import plain_error_messages, silence_logging

STUBS = silence_logging() + plain_error_messages()


def _chain(depth, init_mask):
    """Modules a, a.b, a.b.c (depth 1..3); bit i of init_mask: module i is an __init__ module (a package)."""
    names = "abc"[:depth]
    parent = None
    mods = []
    d = Path("/x")
    for i, n in enumerate(names):
        is_init = bool((init_mask >> i) & 1)
        d = d / n
        fp = d / "__init__.py" if is_init else d.with_suffix(".py")
        mod = Module(n, filepath=fp, parent=parent)
        if parent is not None:
            parent.set_member(n, mod)
        mods.append(mod)
        parent = mod
    return mods


# ================================================================================ relative imports
@obligation(
    pid="C04", name="relative_imports", timeout=tiered(250, 900),
    shards=lambda: [(f"depth={d},from-module={fm!r}", None, [dict(depth=d, from_mod=fm)]) for d in (1, 2, 3) for fm in ("", "x", "x.y")],
    pre=lambda depth, from_mod, level, init_mask, star: 0 <= level <= tiered(3, 4) and 0 <= init_mask < 2 ** depth
    # a module can only have submodules if it is a package: every ancestor of the current module is an __init__ module
    and all((init_mask >> i) & 1 for i in range(depth - 1)),
    drives=[relative_to_absolute, prop(Module, "is_package"), prop(Module, "is_subpackage"), prop(Module, "is_init_module")],
    bounds={"current module": "a, a.b or a.b.c; the current module itself is a package (__init__.py) or a plain module", "level": f"0..{tiered(3, 4)}", "from-module": "none, x, x.y", "imported name": "n or *"},
    value_symbolic=["level", "whether the current module is a package (init_mask)", "star import"], selectors=["module depth, from-module text (driver-bound)"], stubs=STUBS,
    must_cover=["matches-cpython", "beyond-top-level"],
    grid=lambda seed: [dict(depth=d, from_mod=fm, level=l, init_mask=(2 ** d - 1) if pk else (2 ** (d - 1) - 1), star=False) for d in (1, 2, 3) for fm in ("", "x") for l in (0, 1, 2) for pk in (False, True)],
)
def relative_imports(depth: int, from_mod: str, level: int, init_mask: int, star: bool) -> bool:
    """`from <level dots><module> import name` resolves to the absolute path CPython computes (when CPython accepts the import)."""
    mods = _chain(depth, init_mask)
    cur = mods[-1]
    if level == 0 and not from_mod:
        return True  # `from import n` is not valid syntax
    node = ast.ImportFrom(module=from_mod or None, names=[], level=level)
    name = ast.alias(name="*" if star else "n", asname=None)
    got = relative_to_absolute(node, name, cur)  # never raises
    # CPython: __package__ is the module itself for a package, else its parent
    is_pkg = bool((init_mask >> (depth - 1)) & 1)
    package = cur.path if is_pkg else ".".join(cur.path.split(".")[:-1])
    if level == 0:
        want_mod = from_mod
    else:
        if not package:
            cover("beyond-top-level")
            return True  # "attempted relative import with no known parent package": CPython rejects it
        try:
            want_mod = BOOT._resolve_name(from_mod, package, level)
        except ImportError:
            cover("beyond-top-level")
            return True
    want = (want_mod + "." if want_mod else "") + ("*" if star else "n")
    if got != want:
        return fail(f"in {cur.path} ({'package' if is_pkg else 'module'}): from {'.' * level}{from_mod} import n -> {got!r}, CPython resolves {want!r}")
    cover("matches-cpython")
    return True


# ================================================================================ import forms
def _loc(n, l=1):
    n.lineno = n.end_lineno = l
    n.col_offset = 0
    n.end_col_offset = 1
    return n


FORMS = ["import n", "import n.m", "import n as k", "import n.m as k", "from n import m", "from n import m as k", "from .n import m", "from . import m", "from . import m as k", "from .. import m", "from n import *", "from .n import *"]


@obligation(
    pid="C04", name="import_forms", timeout=tiered(250, 900),
    shards=lambda: [(f"form={f!r}", None, [dict(form=f, in_init=i) for i in (False, True)]) for f in FORMS],
    pre=lambda form, in_init, n, m, k: all(len(s) == 1 and s in "pqc" for s in (n, m, k)),
    drives=[Visitor.visit_import, Visitor.visit_importfrom, relative_to_absolute],
    bounds={"import forms": FORMS, "names": "n, m, k: 1 char over 'pqc' (collisions with the current module 'c', its package 'p' and each other arise by solving)", "location": "module p.c (plain module) or package p.c (__init__.py)"},
    value_symbolic=["n", "m", "k"], selectors=["import form, plain-module-vs-package (driver-bound)"], stubs=STUBS + ["hand-built ast import nodes"],
    must_cover=["alias", "self-import-skipped"],
    grid=lambda seed: [dict(form=f, in_init=i, n="q", m="p", k="c") for f in FORMS for i in (False, True)],
)
def import_forms(form: str, in_init: bool, n: str, m: str, k: str) -> bool:
    """Every import form creates the alias CPython would bind: name, absolute target path, entry in the import map; self-imports create nothing."""
    top = Module("p", filepath=Path("/x/p/__init__.py"))
    cur = Module("c", filepath=Path("/x/p/c/__init__.py") if in_init else Path("/x/p/c.py"))
    top.set_member("c", cur)
    v = Visitor("c", cur.filepath, "", Extensions(), parent=top)
    v.current = cur
    star = form.endswith("*")
    if form.startswith("import"):
        dotted = n + ".m" if ".m" in form.split(" as ")[0] else n
        dotted = dotted.replace(".m", "." + m)
        asname = k if " as " in form else None
        node = _loc(ast.Import(names=[_loc(ast.alias(name=dotted, asname=asname))]))
        v.visit_import(node)
        want_name = asname or n
        want_target = dotted if asname else n
        wants = {want_name: want_target}
    else:
        head = form.split(" import ")[0][5:]
        level = len(head) - len(head.lstrip("."))
        modpart = head.lstrip(".")
        modname = n if modpart else None
        asname = k if " as " in form else None
        node = _loc(ast.ImportFrom(module=modname, names=[_loc(ast.alias(name="*" if star else m, asname=asname))], level=level))
        v.visit_importfrom(node)
        package = "p.c" if in_init else "p"
        if level:
            try:
                base = BOOT._resolve_name(modname or "", package, level)
            except ImportError:
                return True  # beyond top-level package: CPython rejects the import
        else:
            base = modname
        if star:
            wants = None
            star_target = base
        else:
            want_name = asname or m
            wants = {want_name: f"{base}.{m}"}
    members = {name: mem for name, mem in cur.members.items()}
    if wants is None:
        # wildcard: one pseudo-member recording the module imported from
        if len(members) != 1:
            return fail(f"wildcard import created {list(members)}")
        al = next(iter(members.values()))
        if not al.is_alias or al.wildcard != star_target:
            return fail(f"wildcard import from {star_target}: alias.wildcard = {al.wildcard!r}")
        cover("wildcard")
        return True
    (want_name, want_target), = wants.items()
    if want_target == f"{cur.path}.{want_name}" or (form.startswith("from . import") and " as " not in form and in_init and not star):
        # `from p.c import x as x` inside p.c, or `from . import m` inside a package: binds the submodule/name to itself - no alias
        cover("self-import-skipped")
        if want_name in members and members[want_name].is_alias and members[want_name].target_path == f"{cur.path}.{want_name}":
            return fail("alias targeting itself created")
        return True
    if set(members) != {want_name}:
        return fail(f"{form}: members {list(members)} expected [{want_name!r}]")
    al = members[want_name]
    if not al.is_alias or al.target_path != want_target:
        return fail(f"{form} with n={n} m={m} k={k}: alias {want_name} -> {getattr(al, 'target_path', None)!r}, expected {want_target!r}")
    if cur.imports.get(want_name) != want_target:
        return fail(f"{form}: imports[{want_name!r}] = {cur.imports.get(want_name)!r}, expected {want_target!r}")
    cover("alias")
    return True


# ================================================================================ scope walk
# package w { W_ONLY: o }  ->  module w.m { g(), K, i (import -> ext.i), v }  ;  K { x, f(self), N { y, h(self) } , v (shadows module v) }
MODULE_NAMES = {"g": "function", "K": "class", "i": "import", "v": "attribute"}
K_NAMES = {"x": "attribute", "f": "method", "N": "class", "v": "attribute"}
N_NAMES = {"y": "attribute", "h": "method"}
ALPHABET = "gKivxfNyhoumw"  # o: bound only in the parent package; u: unbound (builtin/unknown); m, w: the names of the module and of its package (not bound in the module)
SCOPES = ["module", "K", "N", "K.f", "N.h"]


def _scope_tree():
    col = ModulesCollection()
    w = Module("w", filepath=Path("/x/w/__init__.py"))
    col.set_member("w", w)
    w.set_member("o", Attribute("o"))
    m = Module("m", filepath=Path("/x/w/m.py"))
    w.set_member("m", m)
    m.set_member("g", Function("g"))
    m.set_member("i", Alias("i", "ext.i"))
    m.imports["i"] = "ext.i"
    m.set_member("v", Attribute("v"))
    k = Class("K")
    m.set_member("K", k)
    k.set_member("x", Attribute("x"))
    k.set_member("v", Attribute("v"))
    k.set_member("f", Function("f", parameters=Parameters(Parameter("self"))))
    nn = Class("N")
    k.set_member("N", nn)
    nn.set_member("y", Attribute("y"))
    nn.set_member("h", Function("h", parameters=Parameters(Parameter("self"))))
    return m, k, nn


def _python_binding(scope, name):
    """Where Python binds `name` when an expression in `scope` is evaluated (annotations/defaults/bases/decorators are evaluated in
    the scope that contains the definition): the class's own namespace for a class body or a method signature, then module globals."""
    own = {"module": {}, "K": K_NAMES, "N": N_NAMES, "K.f": K_NAMES, "N.h": N_NAMES}[scope]
    prefix = {"module": "w.m", "K": "w.m.K", "N": "w.m.K.N", "K.f": "w.m.K", "N.h": "w.m.K.N"}[scope]
    if name in own:
        return f"{prefix}.{name}"
    if name in MODULE_NAMES:
        return "ext.i" if MODULE_NAMES[name] == "import" else f"w.m.{name}"
    return name  # builtins / unknown: unchanged


@obligation(
    pid="C04", name="scope_walk", timeout=tiered(250, 900),
    shards=lambda: [(f"scope={s}", None, [dict(scope=s)]) for s in SCOPES],
    pre=lambda scope, name: len(name) == 1 and name in ALPHABET,
    drives=[Object.resolve, Function.resolve, prop(ExprName, "canonical_path")],
    bounds={"package": "w{o} > w.m{g(), K, import i, v}; K{x, v, f(self), N{y, h(self)}}", "looked-up name": f"1 char over {ALPHABET!r} (own members, enclosing-class members, module globals, imports, a name bound only in the parent package, an unbound name)",
            "scopes": SCOPES},
    value_symbolic=["name"], selectors=["scope in which the expression lives (driver-bound)"], stubs=STUBS, must_cover=["member", "import", "unchanged"],
    grid=lambda seed: [dict(scope=s, name=n) for s in SCOPES for n in "gKium"],
)
def scope_walk(scope: str, name: str) -> bool:
    """ExprName.canonical_path == the path of what Python binds the name to in that scope; unbound names come back unchanged; never raises."""
    m, k, nn = _scope_tree()
    holder = {"module": m, "K": k, "N": nn, "K.f": k, "N.h": nn}[scope]  # expressions of a method signature are attached to the class (visitor: parent=self.current)
    got = ExprName(name, parent=holder).canonical_path
    want = _python_binding(scope, name)
    if got != want:
        return fail(f"name {name!r} used in scope {scope}: griffe resolves {got!r}, Python binds {want!r}")
    cover("unchanged" if want == name else "import" if want == "ext.i" else "member")
    return True


# ================================================================================ attribute chains
@obligation(
    pid="C04", name="attribute_chain", timeout=tiered(250, 900),
    shards=lambda: [(f"scope={s}", None, [dict(scope=s)]) for s in ("module", "K")],
    pre=lambda scope, a, b, c, n: all(len(s) == 1 and s in "gKixNyu" for s in (a, b, c)) and 2 <= n <= 3,
    drives=[prop(ExprAttribute, "canonical_path"), prop(ExprName, "canonical_path"), Object.resolve],
    bounds={"chain": "a.b or a.b.c, every segment 1 char over 'gKixNyu'", "scope": "module w.m or class K"}, value_symbolic=["a", "b", "c", "length"], selectors=["scope (driver-bound)"], stubs=STUBS,
    grid=lambda seed: [dict(scope="module", a="K", b="N", c="y", n=3), dict(scope="K", a="i", b="x", c="u", n=2)],
)
def attribute_chain(scope: str, a: str, b: str, c: str, n: int) -> bool:
    """a.b.c: canonical path = resolution of the root in scope + the remaining segments (segment by segment from that root)."""
    m, k, nn = _scope_tree()
    holder = {"module": m, "K": k}[scope]
    first = ExprName(a, parent=holder)
    second = ExprName(b, parent=first)
    values = [first, ".", second]
    if n == 3:
        values += [".", ExprName(c, parent=second)]
    expr = ExprAttribute(values)
    root = _python_binding(scope, a)
    want = ".".join([root, b] + ([c] if n == 3 else []))
    got = expr.canonical_path
    if got != want:
        return fail(f"{a}.{b}{'.' + c if n == 3 else ''} in {scope}: {got!r}, expected {want!r}")
    return True


# ================================================================================ attributes of computed values
COMPUTED = ["g().{x}", "g()[0].{x}", "(g or K).{x}", "g().{x}.{x}", "'s'.{x}", "K.N().{x}"]


@obligation(
    pid="C04", name="computed_attribute", timeout=tiered(200, 600),
    shards=lambda: [(f"scope={s}", None, [dict(scope=s, form=f) for f in range(len(COMPUTED))]) for s in ("module", "K", "N")],
    pre=lambda scope, form, x: len(x) == 1 and x in "gKivxfNyhu",
    drives=[__import__("_griffe.expressions", fromlist=["_build_attribute"])._build_attribute, prop(ExprName, "canonical_path"), Object.resolve],
    bounds={"expression": COMPUTED, "attribute name x": "1 char over 'gKivxfNyhu' (names bound in the module, in class K, in nested class N, or nowhere)", "scope": "module w.m, class K, nested class N"},
    value_symbolic=["x"], selectors=["scope, expression form (driver-bound)"], stubs=STUBS, must_cover=["attribute-of-computed-value-left-unresolved"],
    grid=lambda seed: [dict(scope=s, form=f, x=x) for s in ("module", "K") for f in (0, 3, 4) for x in ("g", "x")],
)
def computed_attribute(scope: str, form: int, x: str) -> bool:
    """The attribute of a computed value (call result, subscript, parenthesised expression) has no static binding: its name element is
    never resolved to an object of the enclosing scope, whatever members happen to carry the same name; the root name still resolves normally."""
    from vlib.stubs import realize_value

    x = realize_value(x)
    from harness.C08_json import _native

    def run():
        import ast as _ast

        from _griffe.expressions import get_expression

        m, k, nn = _scope_tree()
        holder = {"module": m, "K": k, "N": nn}[scope]
        src = COMPUTED[form].format(x=x)
        expr = get_expression(_ast.parse(src, mode="eval").body, holder, parse_strings=False)
        flat = [e for e in expr.iterate(flat=True) if isinstance(e, ExprName)]
        # the attribute elements are the LAST k name elements, k = number of `.{x}` in the template (they follow the computed part)
        k_attr = COMPUTED[form].count(".{x}")
        for idx, e in enumerate(flat):
            is_attr = idx >= len(flat) - k_attr
            try:
                cp = e.canonical_path
            except Exception as err:  # noqa: BLE001
                return f"{src} in {scope}: canonical_path of {e.name!r} raised {type(err).__name__}"
            if is_attr:
                if src.startswith("'s'"):
                    ok = cp == "str." + x
                elif src == f"g().{x}.{x}" and e is flat[-1]:
                    ok = cp in (x, f"{x}.{x}")  # chained on the previous (unresolved) attribute
                else:
                    ok = cp == x
                if not ok:
                    return f"{src} in scope {scope}: the attribute {x!r} of a computed value resolves to {cp!r} (an object of the enclosing scope that merely has the same name)"
        return None

    err = _native(run)
    if err:
        return fail(err)
    cover("attribute-of-computed-value-left-unresolved")
    return True
