"""C05 (second module) — a package graph with a sub-package, loaded from disk by the real loader, against CPython itself.

`package_graph` (engine X as case splitter): the solver picks, for each module of a fixed 7-module package, one import statement out
of a small menu (relative imports of every level and spelling, `as` names, wildcard imports, a local definition placed before or
after the wildcard import that re-defines it). The package is written to a scratch directory, imported by a REAL CPython in a
subprocess (the oracle: for every module, every public name and the object it is bound to) and loaded by griffe.load(...,
resolve_aliases=True, resolve_implicit=True). Compared per module: the set of visible names and, for each, the defining object
(module path + qualified name, or the module a name is bound to). No reference model: CPython is consulted for every case.
"""
from __future__ import annotations

import json
import os
import shutil
import subprocess
import sys
import tempfile

from _griffe.agents.visitor import Visitor
from _griffe.exceptions import AliasResolutionError, CyclicAliasError
from _griffe.loader import GriffeLoader
from _griffe.mixins import SetMembersMixin
from vlib.ob import cover, fail, obligation, tiered
from vlib.stubs import _is_tracing, realize_value, silence_logging

STUBS = silence_logging()
TOP = "zc5"
MENU = {
    "core/__init__.py": ["", "from .. import util", "from ..util import u", "from .. import util as k", "from . import mid", "from ..base import W as V"],
    "core/mid.py": ["def N():\n    pass\nfrom ..base import *", "from ..base import *\ndef N():\n    pass", "from ..base import N, W"],
    "names.py": ["from .core.mid import N", "from .base import N", "from .core import mid", "from .core.mid import N as M"],
    "api.py": ["from .names import *", "from .core.mid import *", "from .core import *", "from . import names"],
    "__init__.py": ["", "from .api import *", "from .core import mid as m2"],
}
FIXED = {
    "base.py": "def N():\n    pass\n\n\nclass W:\n    def draw(self):\n        pass\n\n\n_hidden = 0\n",
    "util.py": "def u():\n    pass\n",
}
ORDER = ["core/__init__.py", "core/mid.py", "names.py", "api.py", "__init__.py"]
SIZES = [len(MENU[k]) for k in ORDER]
TOTAL = 1
for _s in SIZES:
    TOTAL *= _s

_PROBE = r'''
import importlib, inspect, json, sys, types
sys.path.insert(0, sys.argv[1])
top = sys.argv[2]
mods = [top, top + ".base", top + ".util", top + ".core", top + ".core.mid", top + ".names", top + ".api"]
out = {}
try:
    for m in mods:
        importlib.import_module(m)
except Exception as e:
    print(json.dumps({"error": repr(e)})); raise SystemExit
for m in mods:
    d = {}
    for n, v in vars(sys.modules[m]).items():
        if n.startswith("__") and n.endswith("__"):
            continue
        if isinstance(v, types.ModuleType):
            d[n] = "module:" + v.__name__
        elif hasattr(v, "__qualname__") and hasattr(v, "__module__"):
            d[n] = v.__module__ + "." + v.__qualname__
        else:
            d[n] = "value"
    out[m] = d
print(json.dumps(out))
'''


def _decode(idx):
    picks = []
    for size in SIZES:
        picks.append(idx % size)
        idx //= size
    return picks


def _files(picks):
    files = dict(FIXED)
    for key, p in zip(ORDER, picks):
        files[key] = MENU[key][p] + "\n"
    return files


def _griffe_view(root):
    loader = GriffeLoader(search_paths=[root], allow_inspection=False)
    top = loader.load(TOP)
    loader.resolve_aliases(implicit=True, external=False)
    out = {}

    def walk(mod):
        d = {}
        for n, mem in mod.members.items():
            if n.startswith("__") and n.endswith("__"):
                continue
            if mem.is_alias:
                try:
                    ft = mem.final_target
                except (AliasResolutionError, CyclicAliasError) as e:
                    d[n] = "unresolved:" + type(e).__name__
                    continue
                d[n] = ("module:" + ft.path) if ft.is_module else ("value" if ft.is_attribute else ft.path)
            elif mem.is_module:
                d[n] = "module:" + mem.path
                walk(mem)
            else:
                d[n] = "value" if mem.is_attribute else mem.path
        out[mod.path] = d

    walk(top)
    return out


def _case(idx):
    picks = _decode(idx)
    files = _files(picks)
    d = tempfile.mkdtemp(prefix="verif_c05g_")
    try:
        for rel, src in files.items():
            p = os.path.join(d, TOP, rel)
            os.makedirs(os.path.dirname(p), exist_ok=True)
            with open(p, "w") as fh:
                fh.write(src)
        r = subprocess.run([sys.executable, "-S", "-c", _PROBE, d, TOP], capture_output=True, text=True, timeout=120, env={"PYTHONDONTWRITEBYTECODE": "1", "PATH": os.environ.get("PATH", "")})
        try:
            real = json.loads(r.stdout.strip().splitlines()[-1])
        except Exception:  # noqa: BLE001
            return f"probe failed: {r.stderr[-500:]}", None
        if "error" in real:
            return None, "rejected"  # CPython cannot import this combination (e.g. a circular import): outside the property
        got = _griffe_view(d)
        for m, names in real.items():
            g = got.get(m)
            if g is None:
                return f"module {m} not loaded; sources {files}", None
            # a submodule is also bound as an attribute of its package once imported: griffe lists submodules as members anyway
            gv = {n: v for n, v in g.items() if not (v.startswith("module:") and v == "module:" + m + "." + n)}
            rv = {n: v for n, v in names.items() if not (v.startswith("module:") and v == "module:" + m + "." + n)}
            # CPython also sets an imported submodule as an attribute of its package as a SIDE EFFECT of whoever imported it first, and a
            # later `from package import *` picks that attribute up (import-order dependent). Statically, griffe exposes a submodule through
            # a wildcard import only if the package itself imports it: a name bound to a submodule of a star-imported package that griffe
            # does not list is not compared.
            if picks[0] != 4:  # (when core/__init__ does `from . import mid` the package DOES import it: compared strictly)
                for n in [n for n, v in rv.items() if v.startswith("module:") and n not in gv and v.rsplit(".", 1)[-1] == n and v.count(".") >= 2]:
                    del rv[n]
            if gv != rv:
                diff = {n: (gv.get(n), rv.get(n)) for n in sorted(set(gv) | set(rv)) if gv.get(n) != rv.get(n)}
                return f"{m}: (griffe, CPython) differ at {diff}; sources { {k: v for k, v in files.items() if k not in FIXED} }", None
        return None, "agrees"
    finally:
        shutil.rmtree(d, ignore_errors=True)


def init_imports_own_submodule(idx):
    """Known-finding region: the sub-package's __init__ does `from . import mid` and some module star-imports from that sub-package."""
    idx = realize_value(idx)
    picks = _decode(idx)
    return picks[0] == 4 and picks[3] == 2


@obligation(
    pid="C05", name="package_graph", timeout=tiered(280, 1500), path_timeout=120.0,
    shards=lambda: [(f"core/__init__={a!r},mid={b}", (lambda a, b: lambda **kw: kw["idx"] % SIZES[0] == a and (kw["idx"] // SIZES[0]) % SIZES[1] == b)(a, b)) for a in range(SIZES[0]) for b in range(SIZES[1])],
    pre=lambda idx: 0 <= idx < TOTAL,
    drives=[GriffeLoader.load, GriffeLoader.expand_wildcards, GriffeLoader.resolve_aliases, Visitor.visit_importfrom, SetMembersMixin.set_member],
    bounds={"package": f"{TOP}/{{__init__, base (N, W, _hidden), util (u), core/__init__, core/mid, names, api}}", "import statement of each module": MENU, "combinations": TOTAL},
    value_symbolic=["idx: index of the combination of import statements (realised before the loader runs)"],
    stubs=STUBS + ["none on the code under test: real files in a scratch directory, griffe.load from disk; CPython imports the same files in a subprocess"],
    assumptions=["solver-driven case analysis with CPython itself as the oracle for every case; combinations CPython refuses to import are outside the property"],
    must_cover=["agrees"],
    grid=lambda seed: [dict(idx=i) for i in range(0, TOTAL, 37)],
)
def package_graph(idx: int) -> bool:
    """Names visible in every module of the package, and the object each is bound to, are what CPython binds when it imports the same files."""
    idx = realize_value(idx)

    def run():
        err, tag = _case(idx)
        if err:
            return fail(err)
        cover("agrees" if tag == "agrees" else "rejected-by-cpython")
        return True

    if _is_tracing():
        from crosshair.tracers import NoTracing

        with NoTracing():
            return run()
    return run()
