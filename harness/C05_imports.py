"""C05 — imports, re-exports and wildcards resolve exactly as CPython imports them (engine X).

A package is built in memory (every module visited by the real Visitor from a hand-built AST and attached to one
ModulesCollection; no disk): `pkg/__init__.py` star-imports (and optionally explicitly imports) from submodule `s`, which may
itself star-import from `t`. Names of every definition / import / __all__ entry and the line numbers that decide
wildcard-vs-local precedence are symbolic; statement kinds are bound by the driver. Oracle: a reference model of the import
system's namespace semantics (statements executed in line order over dictionaries). Replay/validation: the package is written
to a scratch directory, imported by a real interpreter in a subprocess and loaded by griffe.load from disk.
"""
from __future__ import annotations

import ast
import json
import os
import shutil
import subprocess
import sys
import tempfile
from pathlib import Path

from _griffe.agents.visitor import Visitor
from _griffe.collections import LinesCollection, ModulesCollection
from _griffe.extensions.base import Extensions
from _griffe.loader import GriffeLoader
from _griffe.mixins import ObjectAliasMixin
from _griffe.models import Alias
from harness.C01_extract import _assign, _at, _classdef, _const, _funcdef, _name, _pass
from vlib.ob import TIER, HarnessDefect, cover, fail, obligation, tiered, prop
from vlib.stubs import plain_error_messages, silence_logging

STUBS = silence_logging() + plain_error_messages()
NAMES = ["a", "b", "_", "__d__"]  # '_' is a private name and '__d__' a dunder one: both skipped by a wildcard import unless listed in __all__


def _star(mod, l):
    return _at(ast.ImportFrom(module=mod, names=[_at(ast.alias(name="*", asname=None), l)], level=1), l)


def _from(mod, name, asname, l):
    return _at(ast.ImportFrom(module=mod, names=[_at(ast.alias(name=name, asname=asname), l)], level=1), l)


def _all(entries, l, plus_module=None):
    lst = _at(ast.List(elts=[_const(e, l) for e in entries], ctx=ast.Load()), l)
    if plus_module:
        left = _at(ast.Attribute(value=_name(plus_module, l), attr="__all__", ctx=ast.Load()), l)
        value = _at(ast.BinOp(left=left, op=ast.Add(), right=lst), l)
    else:
        value = lst
    return _at(ast.Assign(targets=[_name("__all__", l, ast.Store())], value=value, type_comment=None), l)


def _cls(n, l):
    meth = _funcdef(ast.FunctionDef, "m", l + 1, l + 2, [_pass(l + 2)], with_self=True)
    return _classdef(n, l, l + 2, [meth])


def build_package(s_all, local_kind, explicit, chain, pkg_all, n1, n2, n3, n4, k, e1, l_star, l_def, l_exp):
    """-> dict module name -> list of (line, statement kind tuple) ; statement tuples are rendered to AST, to text and to the reference."""
    mods = {"pkg": [], "s": [], "t": []}
    # s: two definitions (a function and a class), optional __all__, optional star import from t (placed first)
    if chain:
        mods["t"] = [(1, ("def", n4)), (3, ("assign", "_"))]
        if s_all == "plus_t":
            mods["t"].append((5, ("all", [n4], None)))
        mods["s"].append((1, ("star", "t")))
    mods["s"] += [(3, ("def", n1)), (6, ("class", n2))]
    if s_all == "plus_t":
        # __all__ assembled from another module's __all__, itself re-exported one level up (chain of depth 2)
        mods["s"] += [(9, ("import_mod", "t")), (10, ("all", [e1], "t"))]
    elif s_all:
        mods["s"].append((10, ("all", [e1], None)))
    # pkg/__init__: star import from s at l_star, a local definition at l_def, optional explicit import at l_exp, optional __all__
    pk = [(l_star, ("star", "s")), (l_def, (local_kind, n3))]
    if explicit == "plain":
        pk.append((l_exp, ("from", "s", n1, None)))
    elif explicit == "as":
        pk.append((l_exp, ("from", "s", n1, k)))
    if pkg_all == "own":
        pk.append((40, ("all", [n3], None)))
    elif pkg_all == "plus":
        pk.append((38, ("import_mod", "s")))
        pk.append((40, ("all", [n3], "s")))
    mods["pkg"] = sorted(pk, key=lambda t: t[0])
    return mods


def to_ast(stmts):
    body = []
    for l, st in stmts:
        kind = st[0]
        if kind == "def":
            body.append(_funcdef(ast.FunctionDef, st[1], l, l + 1, [_pass(l + 1)]))
        elif kind == "class":
            body.append(_cls(st[1], l))
        elif kind == "assign":
            body.append(_assign(st[1], l))
        elif kind == "star":
            body.append(_star(st[1], l))
        elif kind == "from":
            body.append(_from(st[1], st[2], st[3], l))
        elif kind == "import_mod":
            body.append(_at(ast.ImportFrom(module=None, names=[_at(ast.alias(name=st[1], asname=None), l)], level=1), l))
        elif kind == "all":
            body.append(_all(st[1], l, st[2]))
    return ast.Module(body=body, type_ignores=[])


def to_source(stmts):
    lines = {}
    for l, st in stmts:
        kind = st[0]
        if kind == "def":
            lines[l] = f"def {st[1]}():"; lines[l + 1] = "    pass"
        elif kind == "class":
            lines[l] = f"class {st[1]}:"; lines[l + 1] = "    def m(self):"; lines[l + 2] = "        pass"
        elif kind == "assign":
            lines[l] = f"{st[1]} = 0"
        elif kind == "star":
            lines[l] = f"from .{st[1]} import *"
        elif kind == "from":
            lines[l] = f"from .{st[1]} import {st[2]}" + (f" as {st[3]}" if st[3] else "")
        elif kind == "import_mod":
            lines[l] = f"from . import {st[1]}"
        elif kind == "all":
            lines[l] = "__all__ = " + (f"{st[2]}.__all__ + " if st[2] else "") + repr(list(st[1]))
    return "\n".join(lines.get(i, "") for i in range(1, max(lines) + 1)) + "\n"


def reference(mods):
    """The import system's semantics over dictionaries: name -> dotted path of the defining object. None = CPython rejects the package."""
    ns = {}

    def run(mod):
        if mod in ns:
            return ns[mod]
        d = ns[mod] = {}
        path = "pkg" if mod == "pkg" else f"pkg.{mod}"
        for l, st in mods[mod]:
            kind = st[0]
            if kind in ("def", "class", "assign"):
                d[st[1]] = f"{path}.{st[1]}"
            elif kind == "all":
                extra = []
                if st[2]:
                    if "__all__" not in ns.get(st[2], {}):
                        return None
                    extra = ns[st[2]]["__all__"]
                d["__all__"] = list(extra) + list(st[1])
            elif kind == "import_mod":
                if run(st[1]) is None:
                    return None
                d[st[1]] = ("module", st[1])
            elif kind == "star":
                src = run(st[1])
                if src is None:
                    return None
                d[st[1]] = ("module", st[1])  # importing a submodule binds it in the package namespace (all modules here live in pkg)
                if "__all__" in src:
                    for n in src["__all__"]:
                        if n not in src:
                            return None  # AttributeError at import time
                        d[n] = src[n]
                else:
                    for n, v in src.items():
                        if not n.startswith("_"):
                            d[n] = v
            elif kind == "from":
                src = run(st[1])
                if src is None or st[2] not in src:
                    return None
                d[st[1]] = ("module", st[1]) if mod == "pkg" else d.get(st[1], ("module", st[1]))
                d[st[3] or st[2]] = src[st[2]]
        return d

    top = run("pkg")
    if top is None:
        return None
    ALL_OF.clear()
    ALL_OF.update({("pkg" if m == "pkg" else f"pkg.{m}"): list(d["__all__"]) for m, d in ns.items() if d is not None and "__all__" in d})
    return {n: v for n, v in top.items() if n != "__all__" and not isinstance(v, tuple)}


ALL_OF: dict = {}  # module path -> CPython's __all__ of the last package passed to reference()


def griffe_namespace(mods):
    col, lc = ModulesCollection(), LinesCollection()
    ext = Extensions()
    v = Visitor("pkg", Path("/x/pkg/__init__.py"), "", ext, lines_collection=lc, modules_collection=col)
    v.visit(to_ast(mods["pkg"]))
    pkg = v.current.module
    col.set_member("pkg", pkg)
    for sub in ("s", "t"):
        if mods[sub]:
            vs = Visitor(sub, Path(f"/x/pkg/{sub}.py"), "", ext, parent=pkg, lines_collection=lc, modules_collection=col)
            vs.visit(to_ast(mods[sub]))
            pkg.set_member(sub, vs.current.module)
    loader = GriffeLoader(extensions=ext, modules_collection=col, lines_collection=lc, search_paths=[Path("/nonexistent")])
    loader.expand_exports(pkg)
    loader.expand_wildcards(pkg, external=False)
    loader.resolve_aliases(implicit=True, external=False)
    return pkg


def observed(pkg):
    got = {}
    for name, mem in pkg.members.items():
        if name == "__all__" or (not mem.is_alias and mem.is_module):
            continue
        if mem.is_alias:
            ft = mem.final_target  # AliasResolutionError / CyclicAliasError here is a violation (acyclic, fully loaded package)
            if ft.is_module:
                continue
            got[name] = ft.path
        else:
            got[name] = mem.path
    return got


CASES = []
for _s_all in (False, True):
    for _local in ("def", "assign"):
        for _explicit in ("none", "plain", "as"):
            for _chain in ((False, True) if TIER == "thorough" else (False,)):
                for _pkg_all in ("none", "own", "plus"):
                    if _pkg_all == "plus" and not _s_all:
                        continue
                    CASES.append(dict(s_all=_s_all, local_kind=_local, explicit=_explicit, chain=_chain, pkg_all=_pkg_all))


CASES += [dict(s_all="plus_t", local_kind="def", explicit="none", chain=True, pkg_all=_p) for _p in ("plus", "none")]
if TIER == "thorough":
    CASES += [dict(s_all="plus_t", local_kind=_l, explicit=_e, chain=True, pkg_all=_p) for _l in ("def", "assign") for _e in ("plain", "as") for _p in ("plus", "own", "none")]


def _pin(c):
    c = dict(c)
    c["n2"] = "b"
    if c["explicit"] != "as":
        c["k"] = "a"
    if c["explicit"] == "none":
        c["l_exp"] = 30
    if not c["s_all"]:
        c["e1"] = "a"
    if not c["chain"]:
        c["n4"] = "a"
    return c


def _replay(**a):
    mods = build_package(**a)
    want = reference(mods)
    d = tempfile.mkdtemp(prefix="verif_c05_")
    try:
        os.makedirs(os.path.join(d, "pkg"))
        for mod, stmts in mods.items():
            if stmts:
                Path(d, "pkg", "__init__.py" if mod == "pkg" else f"{mod}.py").write_text(to_source(stmts))
        code = ("import json, sys, inspect\nsys.path.insert(0, %r)\ntry:\n    import pkg\nexcept Exception as e:\n    print(json.dumps({'error': repr(e)})); raise SystemExit\n"
                "out = {}\nSKIP = {'__name__', '__doc__', '__package__', '__loader__', '__spec__', '__path__', '__file__', '__cached__', '__builtins__', '__all__'}\nfor n, v in vars(pkg).items():\n    if n in SKIP or inspect.ismodule(v): continue\n"
                "    out[n] = (v.__module__ + '.' + v.__qualname__) if hasattr(v, '__qualname__') else None\n"
                "alls = {m: list(sys.modules[m].__all__) for m in ('pkg', 'pkg.s', 'pkg.t') if m in sys.modules and hasattr(sys.modules[m], '__all__')}\n"
                "out['__alls__'] = alls\nprint(json.dumps(out))\n") % d
        r = subprocess.run([sys.executable, "-c", code], capture_output=True, text=True, timeout=60, env={"PYTHONDONTWRITEBYTECODE": "1"})
        real = json.loads(r.stdout.strip().splitlines()[-1])
        real_alls = real.pop("__alls__", {}) if isinstance(real, dict) else {}
        if "error" in real:
            if want is not None:
                raise HarnessDefect(f"reference accepts a package CPython rejects: {real['error']}\n{ {m: to_source(s) for m, s in mods.items() if s} }")
            return False, "CPython rejects this package (outside the property)"
        if want is None:
            raise HarnessDefect(f"reference rejects a package CPython imports: { {m: to_source(s) for m, s in mods.items() if s} }")
        # plain values (assignments) have no __qualname__: compare only names for those
        for n, p in real.items():
            if n not in want or (p is not None and want[n] != p):
                raise HarnessDefect(f"reference namespace {want} differs from CPython's {real}")
        if set(want) != set(real):
            raise HarnessDefect(f"reference namespace {want} differs from CPython's {real}")
        from _griffe.loader import load

        pkg = load("pkg", search_paths=[d], resolve_aliases=True, resolve_implicit=True, resolve_external=False)
        got = observed(pkg)
        if got != want:
            return True, f"griffe.load from disk: {got}; CPython: {want}; sources: { {m: to_source(s) for m, s in mods.items() if s} }"
        if {k: set(v) for k, v in real_alls.items()} != {k: set(v) for k, v in ALL_OF.items()}:
            raise HarnessDefect(f"reference __all__ {ALL_OF} differs from CPython's {real_alls}")
        for mpath, names in real_alls.items():
            ex = (pkg if mpath == "pkg" else pkg[mpath.split(".", 1)[1]]).exports
            if ex is None or any(not isinstance(x, str) for x in ex) or set(ex) != set(names):
                return True, f"griffe.load from disk: {mpath}.exports = {[str(x) for x in (ex or [])]}; CPython's __all__: {names}; sources: { {m: to_source(s) for m, s in mods.items() if s} }"
        return False, "griffe.load agrees with CPython"
    finally:
        shutil.rmtree(d, ignore_errors=True)


def _nm(s):
    return s in NAMES


def _nf(s):
    return s == "a" or s == "_" or s == "__d__"


@obligation(
    pid="C05", name="package_namespace", timeout=tiered(280, 1800), path_timeout=60.0,
    shards=lambda: [(f"case {i}: {c}", None, [_pin(c)]) for i, c in enumerate(CASES)],
    pre=lambda s_all, local_kind, explicit, chain, pkg_all, n1, n2, n3, n4, k, e1, l_star, l_def, l_exp: n2 == "b" and _nf(n1) and len(k) == 1 and k in "a_" and _nf(n4)
    and _nm(n3) and n3 != "__d__" and _nm(e1)
    and 1 <= l_star <= 30 and 1 <= l_def <= 30 and 1 <= l_exp <= 30 and l_star != l_def and l_star != l_exp and l_def != l_exp and abs(l_star - l_def) > 1 and abs(l_exp - l_def) > 1,
    drives=[GriffeLoader.expand_exports, GriffeLoader.expand_wildcards, GriffeLoader._expand_wildcard, GriffeLoader.resolve_aliases, GriffeLoader.resolve_module_aliases, Alias.resolve_target,
            prop(ObjectAliasMixin, "is_wildcard_exposed"), Visitor.visit_importfrom, Visitor.handle_attribute],
    bounds={"package": "pkg/__init__.py + pkg/s.py (+ pkg/t.py star-imported by s, thorough)", "s": "def n1, class n2 (with a method), optional __all__ = [e1] or t.__all__ + [e1] (t then declares __all__ = [n4])",
            "pkg": "from .s import * at l_star; a local def/assignment n3 at l_def; optional `from .s import n1 [as k]` at l_exp; optional __all__ = [n3] or s.__all__ + [n3]",
            "names": "function n1 in {a,_,__d__}, class n2 = b, local n3 in {a,b,_}, __all__ entry e1 in {a,b,_,__d__}, alias name k in {a,_} (underscore = private, __d__ = dunder)", "line numbers": "1..30, pairwise distinct: every relative order of the statements"},
    value_symbolic=["the line numbers of the star import, the local definition and the explicit import (symbolic through the loader's precedence comparisons)", "every defined / imported / exported name (case-split by the engine at entry)"],
    selectors=["presence of __all__ in s and in pkg, kind of the local binding, explicit import form, chain through t (driver-bound)"],
    stubs=STUBS + ["modules visited from hand-built ASTs and attached in memory; ModuleFinder pointed at /nonexistent"],
    must_cover=["star-then-local", "local-then-star", "private-skipped", "dunder-skipped", "all-filters", "all-chain-depth-2"],
    grid=lambda seed: [dict(_pin(c), **{kk: vv for kk, vv in dict(n1="a", n2="b", n3="a", n4="b", k="b", e1="a", l_star=5, l_def=10, l_exp=20).items() if kk not in _pin(c)}) for c in CASES[::3]]
    + [dict(_pin(c), **{kk: vv for kk, vv in dict(n1="_", n2="b", n3="b", n4="b", k="a", e1="_", l_star=12, l_def=4, l_exp=8).items() if kk not in _pin(c)}) for c in CASES[1::4]],
    replay=lambda **a: _replay(**a),
)
def package_namespace(s_all: bool, local_kind: str, explicit: str, chain: bool, pkg_all: str, n1: str, n2: str, n3: str, n4: str, k: str, e1: str, l_star: int, l_def: int, l_exp: int) -> bool:
    """Names visible in pkg after loading + alias resolution, and the defining object of each, equal CPython's namespace; aliases present their targets."""
    from vlib.stubs import realize_value

    # names are case-split by the engine up front (they end up as dictionary keys anyway); the line numbers, whose ORDER decides
    # wildcard-vs-local precedence inside expand_wildcards, stay symbolic integers all the way through
    n1, n2, n3, n4, k, e1 = (realize_value(x) for x in (n1, n2, n3, n4, k, e1))
    mods = build_package(s_all, local_kind, explicit, chain, pkg_all, n1, n2, n3, n4, k, e1, l_star, l_def, l_exp)
    want = reference(mods)
    if want is None:
        return True  # CPython rejects the package (e.g. __all__ names something undefined): outside the property
    pkg = griffe_namespace(mods)
    got = observed(pkg)
    if got != want:
        return fail(f"visible names/definitions {got}; CPython: {want}; package: { {m: s for m, s in mods.items() if s} }")
    # Module.exports == CPython's __all__ (as a set of strings: nothing left unexpanded, nothing lost), for every module that declares one
    for mpath, names in dict(ALL_OF).items():
        mod_obj = pkg if mpath == "pkg" else pkg.members[mpath.split(".", 1)[1]]
        ex = mod_obj.exports
        if ex is None or any(not isinstance(x, str) for x in ex) or set(ex) != set(names):
            return fail(f"{mpath}.__all__ is {names} for CPython, griffe's exports are {[x if isinstance(x, str) else '<unexpanded ' + str(x) + '>' for x in (ex or [])]}; package: { {m: s for m, s in mods.items() if s} }")
        cover("exports-checked")
    # a resolved alias presents its target; member paths are rebased under the alias's own path
    for name, mem in pkg.members.items():
        if mem.is_alias and not mem.final_target.is_module:
            ft = mem.final_target
            if mem.kind is not ft.kind or mem.labels != ft.labels or mem.docstring is not ft.docstring:
                return fail(f"alias {name} does not present its target's kind/labels/docstring")
            if ft.is_class:
                if set(mem.members) != set(ft.members):
                    return fail(f"alias {name}: member names differ from the target's")
                for mn, mm in mem.members.items():
                    if mm.path != f"pkg.{name}.{mn}":
                        return fail(f"alias {name}: member path {mm.path} not rebased under the alias")
                cover("members-rebased")
            if ft.is_function and [p.name for p in mem.parameters] != [p.name for p in ft.parameters]:
                return fail(f"alias {name}: parameters differ")
    cover("star-then-local" if l_star < l_def else "local-then-star")
    if "_" in (n1, n2) and not s_all:
        cover("private-skipped")
    if "__d__" in (n1, n2) and not s_all:
        cover("dunder-skipped")
    if s_all == "plus_t" and pkg_all == "plus":
        cover("all-chain-depth-2")
    if s_all:
        cover("all-filters")
    return True
