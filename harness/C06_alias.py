"""C06 — alias resolution is total, all-or-nothing, cycle-safe and a fixpoint (engine X).

The import graph is *solver-chosen*: every alias target is a symbolic dotted string whose segments range
over loaded modules (m, n), a module that is not loaded (q), defined names (x, y) and an undefined one (z);
self-targets, 2- and 3-cycles, chains and dangling links arise from the path conditions of the real
`get_member` lookups, not from an enumeration written here.
"""
from __future__ import annotations

from pathlib import Path

import _griffe.loader as L
from _griffe.collections import ModulesCollection
from _griffe.exceptions import AliasResolutionError, CyclicAliasError
from _griffe.loader import GriffeLoader
from _griffe.models import Alias, Class, Function, Module
from vlib.ob import TIER, cover, fail, obligation, tiered, prop
from vlib.stubs import plain_error_messages, silence_logging

STUBS = silence_logging() + plain_error_messages()
MODS = "mnq"
NAMES = "xyz"


def seg(c, alpha):
    return len(c) == 1 and c in alpha


def _build(t1, t2, t3, w1, w2, has_w1, has_w2, cls_member):
    col = ModulesCollection()
    m = Module("m")
    n = Module("n")
    col.set_member("m", m)
    col.set_member("n", n)
    if cls_member:
        c = Class("y", lineno=1, endlineno=3)
        c.set_member("x", Function("x", lineno=2, endlineno=3))
        m.set_member("y", c)
    else:
        m.set_member("y", Function("y", lineno=1, endlineno=2))
    a1 = Alias("x", t1, lineno=4, endlineno=4)
    m.set_member("x", a1)
    a2 = Alias("x", t2, lineno=1, endlineno=1)
    n.set_member("x", a2)
    a3 = Alias("y", t3, lineno=2, endlineno=2)
    n.set_member("y", a3)
    if has_w1:
        m.set_member(w1 + "/*", Alias(w1 + "/*", w1, lineno=5, endlineno=5))  # what visit_importfrom creates for `from w1 import *`
    if has_w2:
        n.set_member(w2 + "/*", Alias(w2 + "/*", w2, lineno=3, endlineno=3))
    return col, m, n


def _all_aliases(col):
    out = []
    for mod in col.members.values():
        for mem in mod.members.values():
            if mem.is_alias:
                out.append(mem)
    return out


def _check_graph(col) -> bool:
    loader = GriffeLoader(modules_collection=col, search_paths=[Path("/nonexistent")])
    calls = {"n": 0}
    orig = loader.resolve_module_aliases

    def counted(*a, **k):
        calls["n"] += 1
        if calls["n"] > 400:
            raise RuntimeError("fuel exhausted: resolve_module_aliases called > 400 times")
        return orig(*a, **k)

    loader.resolve_module_aliases = counted
    n_wild_before = sum(1 for a in _all_aliases(col) if a.wildcard)
    un1, it1 = loader.resolve_aliases(implicit=True, external=False)
    if sum(1 for a in _all_aliases(col) if a.wildcard) < n_wild_before:
        cover("wildcard-expanded")
    snapshot = []
    for a in _all_aliases(col):
        if a.wildcard:
            cover("wildcard_left_unexpanded")
            continue
        # dereferencing: only the two documented errors, never a loop / RecursionError / anything else
        try:
            ft = a.final_target
        except AliasResolutionError:
            ft = None
            cover("unresolvable")
        except CyclicAliasError:
            ft = None
            cover("cyclic")
        if ft is not None:
            cover("resolved")
            if ft.is_alias:
                return fail("final_target is an alias")
            # every link of the chain is resolved (never partially resolved)
            link = a
            hops = 0
            while link.is_alias:
                if not link.resolved:
                    return fail("partially resolved chain")
                link = link.target
                hops += 1
                if hops > 10:
                    return fail("chain too long")
            if hops > 1:
                cover("chain>=2")
            if a.kind is not ft.kind:
                return fail("kind differs from final target's")
        else:
            for attr in ("target", "kind", "has_docstring"):
                try:
                    v = getattr(a, attr)
                except (AliasResolutionError, CyclicAliasError):
                    continue
                if attr == "kind" and v.value != "alias":
                    return fail("unresolved alias reports a kind other than ALIAS")
            if a.resolved:
                # first link resolved although the chain cannot be followed: only legal for a cycle made of resolved links
                try:
                    a.final_target
                    return fail("inconsistent")
                except CyclicAliasError:
                    return fail("cyclic chain left resolved (partially resolved chain)")
                except AliasResolutionError:
                    return fail("chain left partially resolved")
        snapshot.append((a.path, id(a._target) if a._target is not None else None))
    # fixpoint: resolving again changes nothing
    un2, it2 = loader.resolve_aliases(implicit=True, external=False)
    if un1 != un2:
        return fail(f"second resolution changes the unresolved set {sorted(un1)} -> {sorted(un2)}")
    snapshot2 = [(a.path, id(a._target) if a._target is not None else None) for a in _all_aliases(col) if not a.wildcard]
    if snapshot != snapshot2:
        return fail("second resolution changed a target")
    return True


def wild_exposes_unresolvable(m1, n1, m3, n3, w1, w2, has_w1, has_w2):
    """Known-finding region: some wildcard import reads a LOADED module that holds an alias whose chain (before any expansion)
    does not end at a real object - the expansion then creates an already-resolved alias in front of an unresolvable one."""
    table = {"m": {"y": None, "x": (m1, n1)}, "n": {"x": ("m", "y"), "y": (m3, n3)}}

    def ok(mod, name, seen):
        if mod not in table or name not in table[mod]:
            return False
        tgt = table[mod][name]
        if tgt is None:
            return True
        if (mod, name) in seen:
            return False
        return ok(tgt[0], tgt[1], seen + [(mod, name)])

    def bad(mod):
        return any(tgt is not None and not ok(mod, name, []) for name, tgt in table[mod].items())

    return (has_w1 and w1 in table and bad(w1)) or (has_w2 and w2 in table and bad(w2))


def _pre_targets(m1, n1, m2, n2, m3, n3):
    return seg(m1, MODS) and seg(m2, MODS) and seg(m3, MODS) and seg(n1, NAMES) and seg(n2, NAMES) and seg(n3, NAMES)


def _shards_by_first():
    return [(f"m1={a},m2={b},m3={c}", (lambda a, b, c: lambda **kw: kw["m1"] == a and kw["m2"] == b and kw["m3"] == c)(a, b, c)) for a in MODS for b in MODS for c in MODS]


CLS_VARIANTS = tiered((False,), (False, True))


@obligation(
    pid="C06", name="alias_graph",
    pre=lambda m1, n1, m2, n2, m3, n3, cls_member: _pre_targets(m1, n1, m2, n2, m3, n3) and cls_member in CLS_VARIANTS,
    shards=_shards_by_first, timeout=tiered(200, 600),
    drives=[GriffeLoader.resolve_aliases, GriffeLoader.resolve_module_aliases, GriffeLoader.expand_wildcards, Alias.resolve_target,
            Alias._resolve_target, prop(Alias, "final_target"), prop(Alias, "target"), ModulesCollection.get_member],
    bounds={"modules": "m, n loaded; q not loaded", "aliases": 3, "target": "<mod>.<name>, mod in {m,n,q}, name in {x,y,z} (z undefined): 729 graphs", "member shapes": tiered("m.y is a function", "m.y is a function or a class with member x"), "wildcards": 0},
    value_symbolic=["m1,n1,m2,n2,m3,n3: 1-char strings forming the three alias target paths", "cls_member: whether m.y is a class with member x"],
    stubs=STUBS + ["ModuleFinder search path = /nonexistent (no disk access)"],
    must_cover=["resolved", "unresolvable", "cyclic", "chain>=2"],
    grid=lambda seed: [dict(m1=a, n1=b, m2=c, n2=d, m3=e, n3=f, cls_member=g) for (a, b, c, d, e, f, g) in
                       [("m", "y", "m", "x", "n", "x", False), ("m", "x", "n", "y", "n", "x", True), ("n", "x", "m", "x", "q", "z", False), ("n", "y", "n", "y", "n", "x", True)]],
)
def alias_graph(m1: str, n1: str, m2: str, n2: str, m3: str, n3: str, cls_member: bool) -> bool:
    """Three aliases m.x, n.x, n.y with solver-chosen targets: termination, error discipline, all-or-nothing, fixpoint."""
    col, m, n = _build(m1 + "." + n1, m2 + "." + n2, m3 + "." + n3, "", "", False, False, cls_member)
    return _check_graph(col)


@obligation(
    pid="C06", name="wildcard_graph",
    pre=lambda m1, n1, m3, n3, w1, w2, has_w1, has_w2: seg(m1, MODS) and seg(n1, NAMES) and seg(m3, MODS) and seg(n3, NAMES) and seg(w1, MODS) and seg(w2, MODS) and (has_w1 or has_w2)
    and (TIER == "thorough" or (has_w1 and m3 == "m" and n3 == "y")),
    shards=lambda: [(f"w1={a},m1={b}", (lambda a, b: lambda **kw: kw["w1"] == a and kw["m1"] == b)(a, b)) for a in MODS for b in MODS],
    timeout=tiered(200, 600),
    drives=[GriffeLoader.expand_wildcards, GriffeLoader._expand_wildcard, GriffeLoader.resolve_aliases, GriffeLoader.resolve_module_aliases, Alias.resolve_target],
    bounds={"modules": "m, n loaded; q not loaded", "wildcard imports": "one in m (from w1), one in n (from w2), each optional, at least one", "aliases": "m.x -> m1.n1, n.y -> m3.n3, n.x -> m.y", "quick restriction": "m wildcard always present, n.y -> m.y fixed; thorough lifts both"},
    value_symbolic=["w1, w2: module named by each wildcard import (m, n or unloaded q): self-wildcards and mutual wildcards included", "m1,n1,m3,n3: alias targets"],
    stubs=STUBS + ["ModuleFinder search path = /nonexistent (no disk access)"],
    must_cover=["resolved", "unresolvable", "wildcard-expanded", "wildcard_left_unexpanded"],
)
def wildcard_graph(m1: str, n1: str, m3: str, n3: str, w1: str, w2: str, has_w1: bool, has_w2: bool) -> bool:
    """Wildcard imports (possibly cyclic / self / from an unloaded module) mixed with plain aliases."""
    col, m, n = _build(m1 + "." + n1, "m.y", m3 + "." + n3, w1, w2, has_w1, has_w2, False)
    return _check_graph(col)
