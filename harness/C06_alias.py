"""C06 — alias resolution is total, all-or-nothing, cycle-safe and a fixpoint (engine X).

The import graph is *solver-chosen*: every alias target is a symbolic dotted string whose segments range
over loaded modules (m, n), a module that is not loaded (q), defined names (x, y) and an undefined one (z);
self-targets, 2- and 3-cycles, chains and dangling links arise from the path conditions of the real
`get_member` lookups, not from an enumeration written here.
"""
from __future__ import annotations

from pathlib import Path

import _griffe.loader as L
from _griffe.collections import ModulesCollection
from _griffe.exceptions import AliasResolutionError, CyclicAliasError
from _griffe.loader import GriffeLoader
from _griffe.models import Alias, Class, Function, Module
from vlib.ob import TIER, cover, fail, obligation, tiered, prop
from vlib.stubs import plain_error_messages, silence_logging

STUBS = silence_logging() + plain_error_messages()
MODS = "mnq"
NAMES = "xyz"


def seg(c, alpha):
    return len(c) == 1 and c in alpha


def _build(t1, t2, t3, w1, w2, has_w1, has_w2, cls_member):
    col = ModulesCollection()
    m = Module("m")
    n = Module("n")
    col.set_member("m", m)
    col.set_member("n", n)
    if cls_member:
        c = Class("y", lineno=1, endlineno=3)
        c.set_member("x", Function("x", lineno=2, endlineno=3))
        m.set_member("y", c)
    else:
        m.set_member("y", Function("y", lineno=1, endlineno=2))
    a1 = Alias("x", t1, lineno=4, endlineno=4)
    m.set_member("x", a1)
    a2 = Alias("x", t2, lineno=1, endlineno=1)
    n.set_member("x", a2)
    a3 = Alias("y", t3, lineno=2, endlineno=2)
    n.set_member("y", a3)
    if has_w1:
        m.set_member(w1 + "/*", Alias(w1 + "/*", w1, lineno=5, endlineno=5))  # what visit_importfrom creates for `from w1 import *`
    if has_w2:
        n.set_member(w2 + "/*", Alias(w2 + "/*", w2, lineno=3, endlineno=3))
    return col, m, n


def _all_aliases(col):
    out = []
    for mod in col.members.values():
        for mem in mod.members.values():
            if mem.is_alias:
                out.append(mem)
    return out


def _check_graph(col, loader=None, external=False) -> bool:
    loader = loader or GriffeLoader(modules_collection=col, search_paths=[Path("/nonexistent")])
    calls = {"n": 0}
    orig = loader.resolve_module_aliases

    def counted(*a, **k):
        calls["n"] += 1
        if calls["n"] > 400:
            raise RuntimeError("fuel exhausted: resolve_module_aliases called > 400 times")
        return orig(*a, **k)

    loader.resolve_module_aliases = counted
    n_wild_before = sum(1 for a in _all_aliases(col) if a.wildcard)
    un1, it1 = loader.resolve_aliases(implicit=True, external=external)
    if sum(1 for a in _all_aliases(col) if a.wildcard) < n_wild_before:
        cover("wildcard-expanded")
    snapshot = []
    for a in _all_aliases(col):
        if a.wildcard:
            cover("wildcard_left_unexpanded")
            continue
        # dereferencing: only the two documented errors, never a loop / RecursionError / anything else
        try:
            ft = a.final_target
        except AliasResolutionError:
            ft = None
            cover("unresolvable")
        except CyclicAliasError:
            ft = None
            cover("cyclic")
        if ft is not None:
            cover("resolved")
            if ft.is_alias:
                return fail("final_target is an alias")
            # every link of the chain is resolved (never partially resolved)
            link = a
            hops = 0
            while link.is_alias:
                if not link.resolved:
                    return fail("partially resolved chain")
                link = link.target
                hops += 1
                if hops > 10:
                    return fail("chain too long")
            if hops > 1:
                cover("chain>=2")
            if a.kind is not ft.kind:
                return fail("kind differs from final target's")
        else:
            for attr in ("target", "kind", "has_docstring"):
                try:
                    v = getattr(a, attr)
                except (AliasResolutionError, CyclicAliasError):
                    continue
                if attr == "kind" and v.value != "alias":
                    return fail("unresolved alias reports a kind other than ALIAS")
            if a.resolved:
                # first link resolved although the chain cannot be followed: only legal for a cycle made of resolved links
                try:
                    a.final_target
                    return fail("inconsistent")
                except CyclicAliasError:
                    return fail("cyclic chain left resolved (partially resolved chain)")
                except AliasResolutionError:
                    return fail("chain left partially resolved")
        snapshot.append((a.path, id(a._target) if a._target is not None else None))
    # fixpoint: resolving again changes nothing
    un2, it2 = loader.resolve_aliases(implicit=True, external=external)
    if un1 != un2:
        return fail(f"second resolution changes the unresolved set {sorted(un1)} -> {sorted(un2)}")
    snapshot2 = [(a.path, id(a._target) if a._target is not None else None) for a in _all_aliases(col) if not a.wildcard]
    if snapshot != snapshot2:
        return fail("second resolution changed a target")
    return True


def wild_exposes_unresolvable(m1, n1, m3, n3, w1, w2, has_w1, has_w2):
    """Known-finding region: some wildcard import reads a LOADED module that holds an alias whose chain (before any expansion)
    does not end at a real object - the expansion then creates an already-resolved alias in front of an unresolvable one."""
    table = {"m": {"y": None, "x": (m1, n1)}, "n": {"x": ("m", "y"), "y": (m3, n3)}}

    def ok(mod, name, seen):
        if mod not in table or name not in table[mod]:
            return False
        tgt = table[mod][name]
        if tgt is None:
            return True
        if (mod, name) in seen:
            return False
        return ok(tgt[0], tgt[1], seen + [(mod, name)])

    def bad(mod):
        return any(tgt is not None and not ok(mod, name, []) for name, tgt in table[mod].items())

    return (has_w1 and w1 in table and bad(w1)) or (has_w2 and w2 in table and bad(w2))


def _pre_targets(m1, n1, m2, n2, m3, n3):
    return seg(m1, MODS) and seg(m2, MODS) and seg(m3, MODS) and seg(n1, NAMES) and seg(n2, NAMES) and seg(n3, NAMES)


def _shards_by_first():
    return [(f"m1={a},m2={b},m3={c}", (lambda a, b, c: lambda **kw: kw["m1"] == a and kw["m2"] == b and kw["m3"] == c)(a, b, c)) for a in MODS for b in MODS for c in MODS]


CLS_VARIANTS = tiered((False,), (False, True))


@obligation(
    pid="C06", name="alias_graph",
    pre=lambda m1, n1, m2, n2, m3, n3, cls_member: _pre_targets(m1, n1, m2, n2, m3, n3) and cls_member in CLS_VARIANTS,
    shards=_shards_by_first, timeout=tiered(200, 600),
    drives=[GriffeLoader.resolve_aliases, GriffeLoader.resolve_module_aliases, GriffeLoader.expand_wildcards, Alias.resolve_target,
            Alias._resolve_target, prop(Alias, "final_target"), prop(Alias, "target"), ModulesCollection.get_member],
    bounds={"modules": "m, n loaded; q not loaded", "aliases": 3, "target": "<mod>.<name>, mod in {m,n,q}, name in {x,y,z} (z undefined): 729 graphs", "member shapes": tiered("m.y is a function", "m.y is a function or a class with member x"), "wildcards": 0},
    value_symbolic=["m1,n1,m2,n2,m3,n3: 1-char strings forming the three alias target paths", "cls_member: whether m.y is a class with member x"],
    stubs=STUBS + ["ModuleFinder search path = /nonexistent (no disk access)"],
    must_cover=["resolved", "unresolvable", "cyclic", "chain>=2"],
    grid=lambda seed: [dict(m1=a, n1=b, m2=c, n2=d, m3=e, n3=f, cls_member=g) for (a, b, c, d, e, f, g) in
                       [("m", "y", "m", "x", "n", "x", False), ("m", "x", "n", "y", "n", "x", True), ("n", "x", "m", "x", "q", "z", False), ("n", "y", "n", "y", "n", "x", True)]],
)
def alias_graph(m1: str, n1: str, m2: str, n2: str, m3: str, n3: str, cls_member: bool) -> bool:
    """Three aliases m.x, n.x, n.y with solver-chosen targets: termination, error discipline, all-or-nothing, fixpoint."""
    col, m, n = _build(m1 + "." + n1, m2 + "." + n2, m3 + "." + n3, "", "", False, False, cls_member)
    return _check_graph(col)


@obligation(
    pid="C06", name="wildcard_graph",
    pre=lambda m1, n1, m3, n3, w1, w2, has_w1, has_w2: seg(m1, MODS) and seg(n1, NAMES) and seg(m3, MODS) and seg(n3, NAMES) and seg(w1, MODS) and seg(w2, MODS) and (has_w1 or has_w2)
    and (TIER == "thorough" or (has_w1 and m3 == "m" and n3 == "y")),
    shards=lambda: [(f"w1={a},m1={b}", (lambda a, b: lambda **kw: kw["w1"] == a and kw["m1"] == b)(a, b)) for a in MODS for b in MODS],
    timeout=tiered(200, 600),
    drives=[GriffeLoader.expand_wildcards, GriffeLoader._expand_wildcard, GriffeLoader.resolve_aliases, GriffeLoader.resolve_module_aliases, Alias.resolve_target],
    bounds={"modules": "m, n loaded; q not loaded", "wildcard imports": "one in m (from w1), one in n (from w2), each optional, at least one", "aliases": "m.x -> m1.n1, n.y -> m3.n3, n.x -> m.y", "quick restriction": "m wildcard always present, n.y -> m.y fixed; thorough lifts both"},
    value_symbolic=["w1, w2: module named by each wildcard import (m, n or unloaded q): self-wildcards and mutual wildcards included", "m1,n1,m3,n3: alias targets"],
    stubs=STUBS + ["ModuleFinder search path = /nonexistent (no disk access)"],
    must_cover=["resolved", "unresolvable", "wildcard-expanded", "wildcard_left_unexpanded"],
)
def wildcard_graph(m1: str, n1: str, m3: str, n3: str, w1: str, w2: str, has_w1: bool, has_w2: bool) -> bool:
    """Wildcard imports (possibly cyclic / self / from an unloaded module) mixed with plain aliases."""
    col, m, n = _build(m1 + "." + n1, "m.y", m3 + "." + n3, w1, w2, has_w1, has_w2, False)
    return _check_graph(col)


# ================================================================================ three modules, cyclic wildcard imports, a real definition
MODS3 = "mnoq"


def _build3(w_m, w_n, w_o, has_m, has_n, has_o, def_first, tail_mod):
    """m defines function x and may `from <w_m> import *` (before or after the definition); n and o may star-import too;
    n.t is an ordinary alias to <tail_mod>.x. All three modules are loaded; q is not."""
    col = ModulesCollection()
    mods = {}
    for name in "mno":
        mods[name] = Module(name)
        col.set_member(name, mods[name])
    m, n, o = mods["m"], mods["n"], mods["o"]
    m.set_member("x", Function("x", lineno=(1 if def_first else 8), endlineno=(2 if def_first else 9)))
    for mod, w, has in ((m, w_m, has_m), (n, w_n, has_n), (o, w_o, has_o)):
        if has:
            mod.set_member(w + "/*", Alias(w + "/*", w, lineno=5, endlineno=5))
    n.set_member("t", Alias("t", tail_mod + ".x", lineno=7, endlineno=7))
    return col, m


@obligation(
    pid="C06", name="wildcard_cycle3",
    pre=lambda w_m, w_n, w_o, has_m, has_n, has_o, def_first, tail_mod: seg(w_m, MODS3) and seg(w_n, MODS3) and seg(w_o, MODS3) and seg(tail_mod, MODS3) and (has_m or has_n or has_o)
    and (TIER == "thorough" or (has_m and tail_mod in "mo")),
    shards=lambda: [(f"w_m={a},w_n={b},w_o={c}", (lambda a, b, c: lambda **kw: kw["w_m"] == a and kw["w_n"] == b and kw["w_o"] == c)(a, b, c)) for a in MODS3 for b in MODS3 for c in MODS3],
    timeout=tiered(250, 900),
    drives=[GriffeLoader.expand_wildcards, GriffeLoader._expand_wildcard, GriffeLoader.resolve_aliases, GriffeLoader.resolve_module_aliases, Alias.resolve_target, prop(Alias, "final_target")],
    bounds={"modules": "m (defines function x), n (alias t -> <tail>.x), o loaded; q not loaded", "wildcard imports": "one per module, each optional, from a solver-chosen module (self, 2- and 3-cycles included)",
            "placement": "x defined before or after m's star import", "quick restriction": "m always has its wildcard import; tail alias targets m.x or o.x"},
    value_symbolic=["w_m, w_n, w_o (module named by each wildcard import)", "has_m, has_n, has_o", "def_first", "tail_mod"], stubs=STUBS + ["ModuleFinder search path = /nonexistent (no disk access)"],
    must_cover=["resolved", "wildcard-expanded", "definition-survives"],
    grid=lambda seed: [dict(w_m=a, w_n=b, w_o=c, has_m=True, has_n=True, has_o=True, def_first=d, tail_mod=t) for (a, b, c, d, t) in [("n", "o", "q", True, "m"), ("n", "o", "q", False, "o"), ("q", "m", "n", True, "o")]],
)
def wildcard_cycle3(w_m: str, w_n: str, w_o: str, has_m: bool, has_n: bool, has_o: bool, def_first: bool, tail_mod: str) -> bool:
    """Cyclic wildcard imports over three modules around a real definition: resolution terminates, every alias resolves to the real
    object or reports one of the two errors, no chain is left (partially) resolved into a cycle, and the definition itself is never lost."""
    col, m = _build3(w_m, w_n, w_o, has_m, has_n, has_o, def_first, tail_mod)
    if not _check_graph(col):
        return False
    x = m.members.get("x")
    if x is None:
        return fail("m.x disappeared")
    if not x.is_alias:
        cover("definition-survives")
    return True


# ================================================================================ side-loading of external packages during resolution
PKGS = "tprq"  # t(op) is loaded; p and r can be loaded on demand; q cannot
SNAMES = "afz"  # a: the package's alias, f: its function, z: undefined


class _SideLoader(GriffeLoader):
    """GriffeLoader whose `load` takes packages from an in-memory registry (no disk): what resolve_aliases(external=True) calls to side-load."""

    def __init__(self, registry, **kw):
        super().__init__(**kw)
        self._registry = registry
        self.loaded = []

    def load(self, objspec, *a, **k):  # noqa: ARG002
        name = str(objspec)
        if name in self._registry and name not in self.modules_collection.members:
            mod = self._registry[name]()
            self.modules_collection.set_member(name, mod)
            self.loaded.append(name)
            return mod
        raise ModuleNotFoundError(name)


def _pkg(name, alias_target):
    def build():
        mod = Module(name)
        mod.set_member("f", Function("f", lineno=1, endlineno=2))
        mod.set_member("a", Alias("a", alias_target, lineno=3, endlineno=3))
        return mod

    return build


@obligation(
    pid="C06", name="side_loading",
    pre=lambda p1, n1, p2, n2, p3, n3, p4, n4: all(seg(x, PKGS) for x in (p1, p2, p3, p4)) and all(seg(x, SNAMES) for x in (n1, n2, n3, n4))
    # quick: t.b is pinned to p.z (an alias that can never resolve keeps the unresolved set non-empty - the ingredient of the fixpoint test); names a / f only
    and (TIER == "thorough" or (p2 == "p" and n2 == "z" and n1 != "z" and n3 != "z" and n4 != "z")),
    shards=lambda: [(f"t.a->{a}.*,p.a->{b}.*", (lambda a, b: lambda **kw: kw["p1"] == a and kw["p3"] == b)(a, b)) for a in PKGS for b in PKGS],
    timeout=tiered(250, 900),
    drives=[GriffeLoader.resolve_aliases, GriffeLoader.resolve_module_aliases, Alias.resolve_target],
    bounds={"packages": "t loaded with aliases a -> <p1>.<n1>, b -> <p2>.<n2>; p (alias a -> <p3>.<n3>, function f) and r (alias a -> <p4>.<n4>, function f) loadable on demand; q not loadable",
            "names": "a (the package's alias), f (its function), z (undefined)", "resolution": "resolve_aliases(implicit=True, external=True), twice"},
    value_symbolic=["the four alias targets (package and name of each)"], stubs=STUBS + ["GriffeLoader.load takes packages from an in-memory registry (what resolve_aliases(external=True) calls to side-load a package)"],
    must_cover=["resolved", "unresolvable", "side-loaded-2-packages"],
    grid=lambda seed: [dict(p1="p", n1="a", p2="t", n2="a", p3="r", n3="f", p4="q", n4="z"), dict(p1="p", n1="a", p2="r", n2="a", p3="r", n3="a", p4="t", n4="b"), dict(p1="q", n1="f", p2="p", n2="f", p3="p", n3="f", p4="p", n4="a")],
)
def side_loading(p1: str, n1: str, p2: str, n2: str, p3: str, n3: str, p4: str, n4: str) -> bool:
    """Resolution with side-loading reaches a fixpoint: whatever the import chain over the packages, one call resolves everything that can be resolved and a second call changes nothing."""
    col = ModulesCollection()
    loader = _SideLoader({"p": _pkg("p", p3 + "." + n3), "r": _pkg("r", p4 + "." + n4)}, modules_collection=col, search_paths=[Path("/nonexistent")])
    t = Module("t")
    col.set_member("t", t)
    t.set_member("f", Function("f", lineno=1, endlineno=2))
    t.set_member("a", Alias("a", p1 + "." + n1, lineno=3, endlineno=3))
    t.set_member("b", Alias("b", p2 + "." + n2, lineno=4, endlineno=4))
    ok = _check_graph(col, loader=loader, external=True)
    if ok and len(loader.loaded) == 2:
        cover("side-loaded-2-packages")
    if ok:
        # completeness: nothing whose whole chain is loaded may be reported unresolved
        table = {"t": {"f": None, "a": (p1, n1), "b": (p2, n2)}, "p": {"f": None, "a": (p3, n3)}, "r": {"f": None, "a": (p4, n4)}}

        def reachable(pk, nm, seen):
            if pk not in table or nm not in table[pk] or pk not in col.members:
                return False
            tg = table[pk][nm]
            if tg is None:
                return True
            if (pk, nm) in seen:
                return False
            return reachable(tg[0], tg[1], seen + [(pk, nm)])

        for pk in col.members:
            for nm, tg in table[pk].items():
                if tg is not None and reachable(pk, nm, []) and not col.members[pk].members[nm].resolved:
                    return fail(f"{pk}.{nm} -> {'.'.join(tg)}: its whole chain is loaded, yet it is left unresolved after resolve_aliases(external=True)")
    return ok


# ================================================================================ dereferencing aliases around an already-resolved cycle
class _Fuel(Exception):
    pass


@obligation(
    pid="C06", name="resolved_cycle_access",
    pre=lambda cyc, tail, tail2: 2 <= cyc <= 3 and 0 <= tail <= 3 and 0 <= tail2 <= 4,
    timeout=tiered(120, 300),
    drives=[prop(Alias, "final_target"), prop(Alias, "target"), Alias.resolve_target],
    bounds={"cycle": "2 or 3 aliases whose targets were assigned as objects (already resolved links, as the API allows)", "tails": "t -> a cycle member or the function f; u -> t, a cycle member or f"},
    value_symbolic=["cycle length", "what the two outside aliases point to"], stubs=STUBS + ["a call counter on Alias.path: a dereference that needs more than 2000 path lookups is a non-terminating access"],
    must_cover=["cyclic", "resolved"],
    grid=lambda seed: [dict(cyc=c, tail=t, tail2=u) for c in (2, 3) for t in (0, 3) for u in (0, 4)],
)
def resolved_cycle_access(cyc: int, tail: int, tail2: int) -> bool:
    """An alias that leads INTO a cycle of resolved links without being on it reports CyclicAliasError on every access - it never loops."""
    from vlib.stubs import realize_value

    cyc, tail, tail2 = realize_value(cyc), realize_value(tail), realize_value(tail2)
    from harness.C08_json import _native

    def run():
        col = ModulesCollection()
        m = Module("m")
        col.set_member("m", m)
        f = Function("f", lineno=1, endlineno=2)
        m.set_member("f", f)
        ring = [Alias(f"a{i}", f"m.a{(i + 1) % cyc}", lineno=3 + i, endlineno=3 + i) for i in range(cyc)]
        for a in ring:
            m.set_member(a.name, a)
        calls = [0]
        orig = Alias.__dict__["path"]

        def counted(self):
            calls[0] += 1
            if calls[0] > 2000:
                raise _Fuel
            return orig.fget(self)

        Alias.path = property(counted)  # installed before the links are made: the target setter dereferences too

        def link(al, tgt):
            # links created as already resolved; the setter may itself report the cycle it closes (the link is stored nevertheless)
            try:
                al.target = tgt
            except (CyclicAliasError, AliasResolutionError):
                pass

        try:
            for i, a in enumerate(ring):
                calls[0] = 0
                link(a, ring[(i + 1) % cyc])
        except _Fuel:
            Alias.path = orig
            return "assigning the target that closes the cycle does not terminate"
        nodes = [*ring[:3], f] if cyc == 3 else [ring[0], ring[1], ring[0], f]
        t = Alias("t", "m.f", lineno=10, endlineno=10)
        m.set_member("t", t)
        try:
            calls[0] = 0
            link(t, nodes[tail])
            u = Alias("u", "m.f", lineno=11, endlineno=11)
            m.set_member("u", u)
            calls[0] = 0
            link(u, [*nodes, t][tail2])
        except _Fuel:
            Alias.path = orig
            return "pointing an alias at a member of a resolved cycle does not terminate"
        try:
            for al in (*ring, t, u):
                on_cycle_or_into_it = al in ring or (al is t and tail < 3) or (al is u and (tail2 < 3 or (tail2 == 4 and tail < 3)))
                for attr in ("final_target", "kind", "has_docstring", "is_function", "lineno"):
                    calls[0] = 0
                    try:
                        getattr(al, attr)
                        outcome = "value"
                    except CyclicAliasError:
                        outcome = "cyclic"
                    except AliasResolutionError:
                        outcome = "unresolvable"
                    except _Fuel:
                        return f"{al.path}.{attr}: does not terminate (alias leading into a cycle of resolved links)"
                    except RecursionError:
                        return f"{al.path}.{attr}: RecursionError"
                    if attr == "final_target":
                        if on_cycle_or_into_it and outcome != "cyclic":
                            return f"{al.path}.final_target: {outcome}, expected CyclicAliasError"
                        if not on_cycle_or_into_it and outcome != "value":
                            return f"{al.path}.final_target: {outcome}, expected the function"
                        cover("cyclic" if outcome == "cyclic" else "resolved")
        finally:
            Alias.path = orig
        return None

    err = _native(run)
    return err is None or fail(err)
