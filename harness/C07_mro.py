"""C07 — method resolution order and inherited members equal CPython's (engine X).

  c3_merge  : c3linear_merge vs a reference merge on symbolic integer lists (pure value-symbolic differential).
  mro       : N classes whose base lists are solver-chosen (unknown bases, duplicates, self-inheritance and cycles
              included); oracle = CPython's own `type(name, bases, {})` built in dependency order.
  inherited : symbolic member placement; inherited_members / all_members / cls[name] vs getattr along __mro__.
"""
from __future__ import annotations

from _griffe.c3linear import _Dependency, _DependencyList, c3linear_merge
from _griffe.collections import ModulesCollection
from _griffe.mixins import GetMembersMixin, ObjectAliasMixin
from _griffe.models import Alias, Attribute, Class, Function, Module, Object
from vlib.ob import TIER, cover, fail, obligation, tiered, prop
from vlib.stubs import plain_error_messages, silence_logging

STUBS = silence_logging() + plain_error_messages()


# ================================================================================ c3_merge
def c3_reference(lists):
    """Textbook C3 merge (Python 2.3 MRO paper): take the first head that is in no tail; fail if none."""
    seqs = [list(s) for s in lists if s]
    out = []
    while True:
        seqs = [s for s in seqs if s]
        if not seqs:
            return out
        cand = None
        for s in seqs:
            c = s[0]
            if not any(c in t[1:] for t in seqs):
                cand = c
                break
        if cand is None:
            return None
        out.append(cand)
        for s in seqs:
            if s[0] == cand:
                del s[0]


LQ = tiered(3, 3)
MAXV = tiered(4, 5)


def _lists_pre(n1, n2, n3, a1, a2, a3, b1, b2, b3, c1, c2, c3):
    for n in (n1, n2, n3):
        if not (0 <= n <= LQ):
            return False
    rows = ((n1, (a1, a2, a3)), (n2, (b1, b2, b3)), (n3, (c1, c2, c3)))
    for n, vals in rows:
        for i, v in enumerate(vals):
            if i < n:
                if not (1 <= v <= MAXV):
                    return False
            elif v != 0:
                return False
        # items of one linearisation are distinct (a class appears once in an MRO / base list)
        if n >= 2 and vals[0] == vals[1]:
            return False
        if n >= 3 and (vals[0] == vals[2] or vals[1] == vals[2]):
            return False
    return True


@obligation(
    pid="C07", name="c3_merge", pre=_lists_pre, timeout=tiered(250, 1500),
    shards=lambda: [(f"lengths={i},{j},{k}", None, [dict(n1=i, n2=j, n3=k)]) for i in range(LQ + 1) for j in range(LQ + 1) for k in range(LQ + 1)],
    drives=[c3linear_merge, _DependencyList.__contains__, _DependencyList.remove, prop(_DependencyList, "heads"), prop(_DependencyList, "exhausted"), prop(_Dependency, "head"), prop(_Dependency, "tail")],
    bounds={"lists": 3, "items per list": f"0..{LQ}, distinct within a list", "item values": f"1..{MAXV}"},
    value_symbolic=["every list item (ints)"], selectors=["the three list lengths (driver-bound)"], stubs=[],
    must_cover=["merged", "inconsistent"],
    grid=lambda seed: [dict(n1=2, n2=2, n3=2, a1=1, a2=2, a3=0, b1=2, b2=3, b3=0, c1=1, c2=3, c3=0), dict(n1=2, n2=2, n3=0, a1=1, a2=2, a3=0, b1=2, b2=1, b3=0, c1=0, c2=0, c3=0)],
)
def c3_merge(n1: int, n2: int, n3: int, a1: int, a2: int, a3: int, b1: int, b2: int, b3: int, c1: int, c2: int, c3: int) -> bool:
    """c3linear_merge(l1, l2, l3) == reference C3 merge; ValueError exactly when the reference finds no candidate."""
    lists = [[a1, a2, a3][:n1], [b1, b2, b3][:n2], [c1, c2, c3][:n3]]
    want = c3_reference(lists)
    try:
        got = c3linear_merge(*[list(x) for x in lists])
    except ValueError:
        cover("inconsistent")
        return want is None or fail(f"ValueError but reference gives {want}")
    cover("merged")
    return got == want or fail(f"{lists}: got {got}, reference {want}")


# ================================================================================ mro
NCLS = tiered(3, 4)
CNAMES = "ABCD"[:NCLS]
BASE_NAMES = list(CNAMES) + ["X"]  # X: a base that is not loaded (or not static)


def _oracle_mro(bases_of):
    """CPython's view: build the classes with type() in dependency order. -> {name: [names] | None(=rejected/cyclic)}"""
    built, state, out = {}, {}, {}

    def build(n):
        if n in state:
            return state[n] == "done" and built.get(n) is not None
        state[n] = "busy"
        bs = []
        ok = True
        for b in bases_of[n]:
            if b == "X":
                continue
            if state.get(b) == "busy":
                ok = False  # cycle (includes self-inheritance)
                break
            if not build(b):
                ok = False
                break
            bs.append(built[b])
        state[n] = "done"
        if not ok:
            built[n] = None
            out[n] = None
            return False
        try:
            built[n] = type(n, tuple(bs), {})
            out[n] = [c.__name__ for c in built[n].__mro__[1:-1]]
            return True
        except TypeError:
            built[n] = None
            out[n] = None
            return False

    for n in bases_of:
        if n not in state:
            build(n)
    return out, built


def _build_classes(bases_of, via_alias):
    col = ModulesCollection()
    m = Module("m")
    col.set_member("m", m)
    n = Module("n")
    col.set_member("n", n)
    classes = {}
    for name in bases_of:
        classes[name] = Class(name, lineno=1, endlineno=2)
        m.set_member(name, classes[name])
    for name in CNAMES:
        n.set_member(name, Alias(name, "m." + name))  # re-exports in a second module
    for name, bs in bases_of.items():
        classes[name].bases = [("n." if (via_alias and i == 0) else "m.") + b for i, b in enumerate(bs)]
    return col, m, classes


def _mro_pre(*sel, **kw):
    return True


def _bases_from(nb, b1, b2):
    return [BASE_NAMES[b1], BASE_NAMES[b2]][:nb]


def _mro_shards():
    import itertools

    out = []
    for nbs in itertools.product(range(3), repeat=NCLS):
        d = {f"nb{i + 1}": nbs[i] for i in range(NCLS)}
        for i in range(NCLS, 4):
            d[f"nb{i + 1}"] = 0
        total = sum(nbs)
        first = [i for i in range(NCLS) if nbs[i] >= 1]
        label = "base-counts=" + ",".join(map(str, nbs))
        if total >= 5 and first:
            # heavy case: split by the first base slots (still the full space, just more shards)
            k1 = f"b{first[0] + 1}1"
            k2 = f"b{first[-1] + 1}1" if len(first) > 1 else None
            for v1 in range(len(BASE_NAMES)):
                for v2 in (range(len(BASE_NAMES)) if k2 and k2 != k1 else [None]):
                    out.append((f"{label},{k1}={v1}" + (f",{k2}={v2}" if v2 is not None else ""),
                                (lambda k1, v1, k2, v2: lambda **kw: kw[k1] == v1 and (v2 is None or kw[k2] == v2))(k1, v1, k2, v2), [d]))
        elif total >= 4 and first:
            k1 = f"b{first[0] + 1}1"
            for v1 in range(len(BASE_NAMES)):
                out.append((f"{label},{k1}={v1}", (lambda k1, v1: lambda **kw: kw[k1] == v1)(k1, v1), [d]))
        else:
            out.append((label, None, [d]))
    return out


@obligation(
    pid="C07", name="mro", timeout=tiered(280, 1800), shards=_mro_shards,
    pre=lambda nb1, nb2, nb3, nb4, b11, b12, b21, b22, b31, b32, b41, b42, via_alias: all(0 <= b < len(BASE_NAMES) for b in (b11, b12, b21, b22, b31, b32, b41, b42))
    and (nb1 >= 1 or b11 == 0) and (nb1 >= 2 or b12 == 0) and (nb2 >= 1 or b21 == 0) and (nb2 >= 2 or b22 == 0) and (nb3 >= 1 or b31 == 0) and (nb3 >= 2 or b32 == 0)
    and (nb4 >= 1 or b41 == 0) and (nb4 >= 2 or b42 == 0) and (TIER == "thorough" or not via_alias or nb1 + nb2 + nb3 + nb4 <= 3),
    drives=[Class.mro, Class._mro, prop(Class, "resolved_bases"), c3linear_merge],
    bounds={"classes": NCLS, "bases per class": "0..2, each any of the classes (self and forward references included) or an unloaded name", "variant": "first base reached through an alias in a second module" + tiered(" (quick: only for hierarchies with <= 3 base slots in total)", "")},
    value_symbolic=["which class every base slot names (int the engine case-splits)", "via_alias"], selectors=["number of bases of each class (driver-bound)"],
    stubs=STUBS, must_cover=["linearised", "rejected"],
    grid=lambda seed: [dict(nb1=0, nb2=1, nb3=2, nb4=0, b11=0, b12=0, b21=0, b22=0, b31=0, b32=1, b41=0, b42=0, via_alias=v) for v in (False, True)]
    + [dict(nb1=1, nb2=1, nb3=0, nb4=0, b11=1, b12=0, b21=0, b22=0, b31=0, b32=0, b41=0, b42=0, via_alias=False)],
)
def mro(nb1: int, nb2: int, nb3: int, nb4: int, b11: int, b12: int, b21: int, b22: int, b31: int, b32: int, b41: int, b42: int, via_alias: bool) -> bool:
    """Class.mro() == type(...).__mro__ for every class; rejected/cyclic hierarchies raise ValueError (never loop, never mis-order)."""
    spec = [(nb1, b11, b12), (nb2, b21, b22), (nb3, b31, b32), (nb4, b41, b42)][:NCLS]
    bases_of = {CNAMES[i]: _bases_from(*spec[i]) for i in range(NCLS)}
    want, _ = _oracle_mro(bases_of)
    col, m, classes = _build_classes(bases_of, via_alias)
    for name, cls in classes.items():
        calls = [0]
        try:
            got = [c.name for c in cls.mro()]
        except ValueError:
            got = None
        if want[name] is None:
            cover("rejected")
            if got is not None:
                return fail(f"{bases_of}: CPython rejects {name} (inconsistent or cyclic) but griffe returns {got}")
        else:
            cover("linearised")
            if got != want[name]:
                return fail(f"{bases_of}: mro({name}) = {got}, CPython: {want[name]}")
    return True


# ================================================================================ inherited
@obligation(
    pid="C07", name="inherited", timeout=tiered(280, 1500),
    shards=lambda: [(f"shape={s},ax={a}", None, [dict(shape=s, ax=a)]) for s in range(4) for a in (False, True)],
    pre=lambda shape, ax, ay, bx, by, cx, cy, dx, dy, early: 0 <= shape <= 3,
    drives=[prop(Object, "inherited_members"), prop(ObjectAliasMixin, "all_members"), GetMembersMixin.__getitem__, Class.mro, prop(Class, "resolved_bases"), prop(Alias, "inherited_members")],
    bounds={"hierarchies": "chain D(C(B(A))) / diamond D(B(A),C(A)) / D(B,C) unrelated / D(C(A),B(A)) mirrored diamond", "member names": "x, y", "placement": "every subset of {A,B,C,D} x {x,y}"},
    value_symbolic=["presence of x and of y in each of the four classes (8 booleans)", "early: the subclass is created and queried BEFORE its bases are loaded, then queried again (two-step history)"],
    selectors=["hierarchy shape (driver-bound)"], stubs=STUBS,
    must_cover=["inherited", "own-wins", "absent", "queried-before-bases-were-loaded", "inherited-through-aliased-class"],
    grid=lambda seed: [dict(shape=s, ax=True, ay=False, bx=False, by=True, cx=True, cy=True, dx=False, dy=False, early=e) for s in range(4) for e in (False, True)],
)
def inherited(shape: int, ax: bool, ay: bool, bx: bool, by: bool, cx: bool, cy: bool, dx: bool, dy: bool, early: bool) -> bool:
    """inherited_members / all_members / cls[name] == what getattr finds along the real classes' __mro__."""
    shapes = [
        {"A": [], "B": ["A"], "C": ["B"], "D": ["C"]},
        {"A": [], "B": ["A"], "C": ["A"], "D": ["B", "C"]},
        {"A": [], "B": [], "C": [], "D": ["B", "C"]},
        {"A": [], "B": ["A"], "C": ["A"], "D": ["C", "B"]},
    ]
    bases_of = shapes[shape]
    has = {"A": (ax, ay), "B": (bx, by), "C": (cx, cy), "D": (dx, dy)}
    col = ModulesCollection()
    m = Module("m")
    col.set_member("m", m)
    classes, real = {}, {}
    for name in ("DCBA" if early else "ABCD"):
        c = Class(name, bases=["m." + b for b in bases_of[name]])
        m.set_member(name, c)
        for i, mn in enumerate("xy"):
            if has[name][i]:
                c.set_member(mn, Attribute(mn, value=name))
        classes[name] = c
        if early:
            # the module defining the bases is not loaded yet: queries answer with what is known so far, and must not freeze that answer
            cover("queried-before-bases-were-loaded")
            try:
                c.mro()
            except ValueError:
                pass
            c.inherited_members  # noqa: B018
            c.all_members  # noqa: B018
    for name in "ABCD":
        real[name] = type(name, tuple(real[b] for b in bases_of[name]), {mn: name for i, mn in enumerate("xy") if has[name][i]})
    # the same subclass reached through a re-export in a second module
    n = Module("n")
    col.set_member("n", n)
    n.set_member("D", Alias("D", "m.D"))
    for name in "ABCD":
        c = classes[name]
        inh = c.inherited_members
        allm = c.all_members
        for i, mn in enumerate("xy"):
            owner = None
            for k in real[name].__mro__[:-1]:
                if mn in k.__dict__:
                    owner = k.__name__
                    break
            if owner is None:
                cover("absent")
                if mn in inh or mn in allm:
                    return fail(f"{name}.{mn}: present in griffe, absent in CPython")
                continue
            if owner == name:
                cover("own-wins")
                if mn in inh:
                    return fail(f"{name}.{mn}: own member shadowed by an inherited alias")
                if allm[mn] is not c.members[mn] or c[mn] is not c.members[mn]:
                    return fail(f"{name}.{mn}: all_members/cls[name] do not return the class's own member")
                continue
            cover("inherited")
            if mn not in inh:
                return fail(f"{name}.{mn}: CPython inherits it from {owner}, griffe has no inherited member")
            al = inh[mn]
            if not al.is_alias or not al.inherited:
                return fail(f"{name}.{mn}: inherited member is not an inherited alias")
            if al.path != f"m.{name}.{mn}":
                return fail(f"{name}.{mn}: alias path {al.path}")
            if al.final_target is not classes[owner].members[mn]:
                return fail(f"{name}.{mn}: resolves to {al.final_target.path}, CPython finds {owner}.{mn}")
            if c[mn].final_target is not classes[owner].members[mn] or allm[mn].final_target is not classes[owner].members[mn]:
                return fail(f"{name}.{mn}: cls[name]/all_members disagree with inherited_members")
            if name == "D":
                # through the aliased class: same member, under the alias's path, still flagged as inherited
                via = n.members["D"]
                for got, how in ((via.inherited_members.get(mn), "inherited_members"), (via.all_members.get(mn), "all_members"), (via[mn], "cls[name]")):
                    if got is None or not got.is_alias:
                        return fail(f"n.D.{mn} ({how}): missing through the aliased class")
                    if not got.inherited:
                        return fail(f"n.D.{mn} ({how}): not flagged as inherited when the class is reached through an alias")
                    if got.path != f"n.D.{mn}" or got.final_target is not classes[owner].members[mn]:
                        return fail(f"n.D.{mn} ({how}): path {got.path} / final target {got.final_target.path}")
                cover("inherited-through-aliased-class")
    return True
