"""C08 — JSON serialisation round-trips without loss (engine X).

A tree  module -> {function, class -> {attribute, method, alias}, attribute, alias}  is built through the
models API with symbolic optional fields (every lineno/endlineno may be None, 0 or positive; docstring presence,
text and span; label subsets) and, per driver-bound case, one expression shape for every entry of
`expressions._node_map` (the menu is derived from _node_map at run time: a new node type without a snippet makes
the harness fail closed), a module filepath kind and the dump mode. Real `json` does the (de)serialisation;
symbolic values are realised at that C boundary.
"""
from __future__ import annotations

import ast
import enum
import json
import os
from pathlib import Path

import _griffe.encoders as ENC
import _griffe.expressions as EX
from _griffe.encoders import JSONEncoder, json_decoder
from _griffe.enumerations import ParameterKind as PK
from _griffe.expressions import Expr, ExprName, get_expression
from _griffe.mixins import SerializationMixin
from _griffe.models import Alias, Attribute, Class, Decorator, Docstring, Function, Module, Object, Parameter, Parameters
from vlib.ob import TIER, HarnessDefect, cover, fail, obligation, tiered
from vlib.stubs import plain_error_messages, silence_logging

STUBS = silence_logging() + plain_error_messages()

SNIPPETS = {
    ast.Attribute: "a.b.c", ast.BinOp: "a + b * c", ast.BoolOp: "a or b and c", ast.Call: "f(a, *b, k=c, **d)", ast.Compare: "a < b <= c",
    ast.comprehension: "[x for x in a if x]", ast.Constant: "'s'", ast.Dict: "{a: b, 1: 2}", ast.DictComp: "{k: v for k, v in a}", ast.FormattedValue: "f'{a}'",
    ast.GeneratorExp: "(x for x in a)", ast.IfExp: "a if b else c", ast.JoinedStr: "f'x{a}y'", ast.keyword: "f(k=a)", ast.Lambda: "lambda a, b=1, *c, d, **e: a",
    ast.List: "[a, 1]", ast.ListComp: "[x for x in a]", ast.Name: "a", ast.NamedExpr: "(a := b)", ast.Set: "{a, 1}", ast.SetComp: "{x for x in a}",
    ast.Slice: "a[1:2]", ast.Starred: "[*a]", ast.Subscript: "a[b, c]", ast.Tuple: "(a, b)", ast.UnaryOp: "-a", ast.Yield: "(yield a)", ast.YieldFrom: "(yield from a)",
}
MENU = []
for _t in EX._node_map:
    if _t not in SNIPPETS:
        raise HarnessDefect(f"expressions._node_map has a node type without a snippet in the C08/C09 menu: {_t.__name__}")
    MENU.append((_t.__name__, SNIPPETS[_t]))


def _native(fn, *a, **k):
    try:
        from crosshair.tracers import NoTracing, is_tracing

        if is_tracing():
            with NoTracing():
                return fn(*a, **k)
    except ImportError:
        pass
    return fn(*a, **k)


def mk_expr(idx, parent):
    def build():
        src = MENU[idx][1]
        node = ast.parse(src, mode="eval").body
        return get_expression(node, parent, parse_strings=False)

    return _native(build)  # expression construction is not the subject here (C03/C04): built concretely


def opt(v):
    return None if v < 0 else v


def build_tree(fp_kind, ei, f_l, f_e, c_l, c_e, a_l, a_e, al_l, al_e, ds_l, ds_e, has_doc, doc, labels, pkind):
    if fp_kind == 0:
        mod = Module("m", filepath=Path("pkg/m.py"))
    elif fp_kind == 1:
        mod = Module("m", filepath=[Path("a/m"), Path("b/m")])
    else:
        mod = Module("m", filepath=None)
    mod.set_member("a", Attribute("a", lineno=1, endlineno=1))  # names used by the expressions resolve to members
    ds = Docstring(doc, lineno=opt(ds_l), endlineno=opt(ds_e)) if has_doc else None
    e = lambda: mk_expr(ei, mod)  # noqa: E731
    f = Function("f", lineno=opt(f_l), endlineno=opt(f_e), docstring=ds, returns=e(), decorators=[Decorator(e(), lineno=opt(f_l), endlineno=opt(f_l))],
                 parameters=Parameters(Parameter("p", annotation=e(), kind=list(PK)[pkind], default=e()), Parameter("q", annotation=None, kind=PK.keyword_only, default=None)))
    if labels & 1:
        f.labels.add("async")
    if labels & 2:
        f.labels.add("cached")
    mod.set_member("f", f)
    c = Class("C", lineno=opt(c_l), endlineno=opt(c_e), bases=[e(), "plain.Base"], decorators=[Decorator(e(), lineno=opt(c_l), endlineno=opt(c_l))],
              docstring=Docstring(doc, lineno=opt(ds_l), endlineno=opt(ds_e)) if has_doc else None)
    mod.set_member("C", c)
    ec = lambda: mk_expr(ei, c)  # noqa: E731  (expressions of class members are scoped to the class, as the visitor does)
    x = Attribute("x", lineno=opt(a_l), endlineno=opt(a_e), value=ec(), annotation=ec())
    if labels & 1:
        x.labels.add("class-attribute")
    c.set_member("x", x)
    c.set_member("meth", Function("meth", lineno=opt(f_l), endlineno=opt(f_e), parameters=Parameters(Parameter("self", kind=PK.positional_or_keyword))))
    c.set_member("al", Alias("al", "other.mod.thing", lineno=opt(al_l), endlineno=opt(al_e)))
    # a second class (never in the symbolic focus: only the native round trip sees it) whose member names collide with the keys the
    # JSON form uses for dispatch (cls, kind) and with a name used in the class's own header (a: headers resolve in the ENCLOSING scope)
    d = Class("D", lineno=30, endlineno=40, bases=[e()], decorators=[Decorator(e(), lineno=30, endlineno=30)])
    mod.set_member("D", d)
    for _n in ("cls", "kind", "a"):
        d.set_member(_n, Attribute(_n, lineno=31, endlineno=31))
    mod.set_member("y", Attribute("y", lineno=opt(a_l), endlineno=opt(a_e), value=None, annotation=None))
    mod.set_member("imp", Alias("imp", "pkg.sub.name", lineno=opt(al_l), endlineno=opt(al_e)))
    # a RESOLVED chain of re-exports: re1 -> re2 -> f (serialisation must keep each alias's own target path)
    from _griffe.collections import ModulesCollection

    col = ModulesCollection()
    col.set_member("m", mod)
    mod.set_member("re2", Alias("re2", "m.f", lineno=opt(al_l), endlineno=opt(al_e)))
    mod.set_member("re1", Alias("re1", "m.re2", lineno=opt(al_l), endlineno=opt(al_e)))
    mod.members["re1"].final_target  # noqa: B018  (resolves both links)
    return mod


def names_of(mod):
    out = []

    def walk_expr(x):
        if isinstance(x, Expr):
            for el in x.iterate(flat=True):
                if isinstance(el, ExprName):
                    out.append((el.name, el.canonical_path))
            walk_keywords(x)

    def walk_keywords(x):
        # keyword arguments carry a reference to the called function (for cross-references): it must resolve as before too
        if isinstance(x, ExprName):
            return  # a name iterates over itself
        for el in x.iterate(flat=False):
            if isinstance(el, Expr) and el is not x:
                if type(el).__name__ == "ExprKeyword":
                    out.append(("keyword:" + el.name, el.canonical_path))
                walk_keywords(el)

    def walk(o):
        if o.is_alias:
            return
        if o.is_function:
            walk_expr(o.returns)
            for d in o.decorators:
                walk_expr(d.value)
            for p in o.parameters:
                walk_expr(p.annotation)
                walk_expr(p.default)
        elif o.is_class:
            for b in o.bases:
                walk_expr(b)
            for d in o.decorators:
                walk_expr(d.value)
        elif o.is_attribute:
            walk_expr(o.value)
            walk_expr(o.annotation)
        for mem in o.members.values():
            walk(mem)

    walk(mod)
    return out


def skeleton(o):
    if o.is_alias:
        return ("alias", o.name, o.target_path, o.alias_lineno or None, o.alias_endlineno or None)
    row = [o.kind.value, o.name, o.lineno, o.endlineno, None if not o.docstring else (o.docstring.value, o.docstring.lineno, o.docstring.endlineno), tuple(sorted(o.labels))]
    if o.is_function:
        row.append(tuple((p.name, p.kind.value, None if p.default is None else str(p.default), None if p.annotation is None else str(p.annotation)) for p in o.parameters))
        row.append(None if o.returns is None else str(o.returns))
        row.append(tuple(str(d.value) for d in o.decorators))
    if o.is_class:
        row.append(tuple(str(b) for b in o.bases))
    if o.is_attribute:
        row.append((None if o.value is None else str(o.value), None if o.annotation is None else str(o.annotation)))
    row.append(tuple(skeleton(m) for _, m in sorted(o.members.items())))
    return tuple(row)


def plain(obj, full):
    """What json.dumps(obj, cls=JSONEncoder, full=full) traverses, as plain data: JSONEncoder.default (the repo's code) runs
    symbolically on every non-JSON value; leaves are realised (the json C boundary)."""
    from vlib.stubs import realize_value

    enc = JSONEncoder(full=full)

    def walk(o):
        if isinstance(o, dict):
            return {str(realize_value(k)): walk(v) for k, v in o.items()}
        if isinstance(o, (list, tuple)):
            return [walk(v) for v in o]
        if isinstance(o, enum.Enum):
            return walk(o.value)  # str-based enumerations are emitted as their value by json
        if o is None or isinstance(o, (bool, int, float, str)):
            return realize_value(o)
        return walk(enc.default(o))

    return walk(obj)


def getm(mod, path):
    o = mod
    for part in path.split("."):
        o = o.members[part]
    return o


def _native(fn, *a, **k):
    try:
        from crosshair.tracers import NoTracing, is_tracing

        if is_tracing():
            with NoTracing():
                return fn(*a, **k)
    except ImportError:
        pass
    return fn(*a, **k)


def _pre(fp_kind, ei, full, f_l, f_e, c_l, c_e, a_l, a_e, al_l, al_e, ds_l, ds_e, has_doc, doc, labels, pkind):
    for v in (f_l, f_e, c_l, c_e, a_l, a_e, al_l, al_e, ds_l, ds_e):
        if not (-1 <= v <= 1):
            return False
    if not has_doc and (doc != "d" or ds_l != -1 or ds_e != -1):
        return False
    return 1 <= len(doc) <= 2 and all(ch in "d " for ch in doc) and doc[0] == "d" and 0 <= labels <= 3 and 0 <= pkind <= 4 and 0 <= ei < len(MENU)


def _shards(expr_idxs, step):
    out = []
    for full in (False, True):
        for fp in (0, 1, 2):
            for j in range(0, len(expr_idxs), step):
                out.append((f"full={full},filepath-kind={fp},expr={MENU[expr_idxs[j]][0]}..", None, [dict(fp_kind=fp, ei=i, full=full) for i in expr_idxs[j : j + step]]))
    return out


_IDX = {n: i for i, (n, _) in enumerate(MENU)}
# which symbolic fields are explored together (the others are pinned) - keeps each analysis small without losing any field
# group -> (free symbolic fields, expression shapes, cases per shard, objects whose serialisation logic runs symbolically)
GROUPS = {
    "function": (("f_l", "f_e", "labels"), [_IDX["Name"], _IDX["Attribute"]], 2, ("f",)),
    "class": (("c_l", "c_e"), [_IDX["Name"]], 1, ("C",)),
    "attribute": (("a_l", "a_e"), [_IDX["Name"]], 1, ("C.x", "y")),
    "aliases": (("al_l", "al_e"), [_IDX["Name"]], 1, ("imp", "C.al", "re1")),
    "docstrings": (("has_doc", "ds_l", "ds_e", "doc"), [_IDX["Name"]], 1, ("f",)),
    "expressions": (("pkind",), list(range(len(MENU))), tiered(4, 2), ("f", "C.x")),
}


def _make(group, free, expr_idxs, step, focus):
    pinned = dict(f_l=1, f_e=1, c_l=1, c_e=1, a_l=1, a_e=1, al_l=1, al_e=1, ds_l=-1, ds_e=-1, has_doc=False, doc="d", labels=0, pkind=1)
    if group == "aliases+docstrings":
        pinned.update(doc="d")

    def shards():
        out = []
        for label, extra, cases in _shards(expr_idxs, step):
            out.append((label, extra, [{**c, **{k: v for k, v in pinned.items() if k not in free}} for c in cases]))
        return out

    @obligation(
        pid="C08", name=f"roundtrip_{group.replace('+', '_')}", pre=_pre, shards=shards, timeout=tiered(300, 1500), path_timeout=60.0,
        drives=[JSONEncoder.default, json_decoder, ENC._load_module, ENC._load_class, ENC._load_function, ENC._load_attribute, ENC._load_alias, ENC._load_docstring, ENC._load_expression,
                ENC._load_parameter, ENC._attach_parent_to_exprs, Object.as_dict, Alias.as_dict, Module.as_dict, Class.as_dict, Function.as_dict, Attribute.as_dict, Docstring.as_dict,
                SerializationMixin.as_json, SerializationMixin.from_json.__func__, EX._expr_as_dict],
        bounds={"tree": "module{function f(p, *, q) with decorator+returns, class C(bases){attribute x, method, alias al}, class D(bases){attributes named cls / kind / a}, attribute y, alias imp, resolved alias chain re1 -> re2 -> f}", "line numbers": "None, 0, 1 for every lineno/endlineno explored in this group",
                "expression shape": [MENU[i][0] for i in expr_idxs], "module filepath": "Path / list of Paths (namespace) / None (built-in)", "dump mode": "minimal and full", "free fields in this group": list(free), "objects serialised symbolically": list(focus)},
        value_symbolic=list(free), selectors=["expression shape (one per _node_map entry), module filepath kind, dump mode (driver-bound)"],
        stubs=STUBS, must_cover=["roundtrip"],
        grid=lambda seed: [dict(fp_kind=0, ei=i, full=fu, **pinned) for i in range(len(MENU)) for fu in (False, True)],
    )
    def roundtrip(fp_kind: int, ei: int, full: bool, f_l: int, f_e: int, c_l: int, c_e: int, a_l: int, a_e: int, al_l: int, al_e: int, ds_l: int, ds_e: int,
                  has_doc: bool, doc: str, labels: int, pkind: int) -> bool:
        """as_json never raises; from_json(as_json(t)) serialises to the identical JSON and has the same skeleton; names in reloaded expressions resolve as before."""
        from vlib.stubs import realize_value

        # symbolic phase: the serialisation logic (as_dict of every class, JSONEncoder.default) on symbolic fields
        mod = build_tree(fp_kind, ei, f_l, f_e, c_l, c_e, a_l, a_e, al_l, al_e, ds_l, ds_e, has_doc, doc, labels, pkind)
        p1 = [plain(getm(mod, path), full) for path in focus]
        # native phase (values realised at the json boundary): the public API end to end with CPython's json
        args = [realize_value(v) for v in (fp_kind, ei, f_l, f_e, c_l, c_e, a_l, a_e, al_l, al_e, ds_l, ds_e, has_doc, doc, labels, pkind)]

        def native_part():
            modc = build_tree(*args)
            j1 = modc.as_json(full=full)
            for path, pl in zip(focus, p1):
                if json.loads(json.dumps(getm(modc, path), cls=JSONEncoder, full=full)) != pl:
                    return f"symbolic traversal of {path} disagrees with json.dumps (harness defect)"
            mod2 = Module.from_json(j1)
            j2 = mod2.as_json(full=full)
            if j1 != j2:
                return "JSON differs after a round trip"
            if skeleton(modc) != skeleton(mod2):
                return f"tree differs after a round trip: {skeleton(modc)} vs {skeleton(mod2)}"
            if names_of(modc) != names_of(mod2):
                return f"names in reloaded expressions resolve differently: {names_of(modc)} vs {names_of(mod2)}"
            return None

        err = _native(native_part)
        if err:
            return fail(err)
        cover("roundtrip")
        return True

    roundtrip.__name__ = f"roundtrip_{group.replace('+', '_')}"
    return roundtrip


for _g, (_free, _idxs, _step, _focus) in GROUPS.items():
    _make(_g, _free, _idxs, _step, _focus)


# ------------------------------------------------------------------------------------------ CLI dump
@obligation(
    pid="C08", name="cli_dump", timeout=tiered(200, 600),
    pre=lambda full, out, f_l, f_e, al_l: -1 <= f_l <= 1 and -1 <= f_e <= 1 and -1 <= al_l <= 1,
    shards=lambda: [(f"full={fu},output={o}", None, [dict(full=fu, out=o)]) for fu in (False, True) for o in ("stream", "file", "file-per-package")],
    drives=[__import__("_griffe.cli", fromlist=["dump"]).dump],
    bounds={"package": "the C08 tree with symbolic function span and alias line", "mode": "minimal / full", "output": "a stream, a single file, or one file per package (`{package}` template)"},
    value_symbolic=["f_l", "f_e", "al_l"], selectors=["dump mode, output route"],
    stubs=STUBS + ["cli._load_packages returns the in-memory tree (no disk access)"], must_cover=["dumped"],
    grid=lambda seed: [dict(full=fu, out=o, f_l=1, f_e=1, al_l=1) for fu in (False, True) for o in ("stream", "file", "file-per-package")],
)
def cli_dump(full: bool, out: str, f_l: int, f_e: int, al_l: int) -> bool:
    """`griffe dump` emits exactly {package: as_dict(full)} through JSONEncoder for each requested package."""
    import io
    import _griffe.cli as CLI

    from vlib.stubs import realize_value

    f_l, f_e, al_l, full = realize_value(f_l), realize_value(f_e), realize_value(al_l), realize_value(full)

    def run():
        mod = build_tree(0, _IDX["Name"], f_l, f_e, 1, 1, 1, 1, al_l, al_l, -1, -1, False, "d", 0, 1)
        orig = CLI._load_packages
        CLI._load_packages = lambda *a, **k: _FakeLoader(mod)
        buf = io.StringIO()
        import shutil
        import tempfile

        tmp = tempfile.mkdtemp(prefix="verif_c08_")
        try:
            target = buf if out == "stream" else os.path.join(tmp, "out.json" if out == "file" else "out-{package}.json")
            rc = CLI.dump(["m"], output=target, full=full)
            if rc != 0:
                return f"dump returned {rc}"
            if out == "stream":
                got = json.loads(buf.getvalue())
            elif out == "file":
                got = json.load(open(os.path.join(tmp, "out.json")))
            else:
                got = {"m": json.load(open(os.path.join(tmp, "out-m.json")))}  # one file per package holds that package's serialisation
        finally:
            CLI._load_packages = orig
            shutil.rmtree(tmp, ignore_errors=True)
        want = {"m": json.loads(mod.as_json(full=full))}
        return None if got == want else f"dump output ({out}, full={full}) differs from the serialisation of the package"

    err = _native(run)
    cover("dumped")
    return err is None or fail(err)


class _FakeLoader:
    def __init__(self, mod):
        from _griffe.collections import ModulesCollection

        self.modules_collection = ModulesCollection()
        self.modules_collection.set_member("m", mod)
