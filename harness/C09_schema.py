"""C09 — full JSON dumps conform to the published schema (engine X).

Same trees as C08, dumped with full=True. The serialisation logic (as_dict of every class, JSONEncoder.default) runs on
symbolic optional fields; the resulting document is validated by `jsonschema` against /repo/docs/schema.json (re-read on
every run) outside the tracer (the document is concrete by then). Docstrings are parsed with every style over a menu of
docstrings that contains every section kind.
"""
from __future__ import annotations

import json
from pathlib import Path

import jsonschema

import _griffe.docstrings.google as G
import _griffe.docstrings.numpy as NP
import _griffe.docstrings.sphinx as SP
from _griffe.docstrings.models import DocstringSection
from _griffe.encoders import JSONEncoder
from _griffe.enumerations import DocstringSectionKind
from _griffe.models import Alias, Attribute, Class, Docstring, Function, Module, Object
from harness.C08_json import MENU, _IDX, _native, build_tree, getm, plain
from vlib.ob import TIER, HarnessDefect, cover, fail, obligation, tiered
from vlib.stubs import plain_error_messages, silence_logging

STUBS = silence_logging() + plain_error_messages()
for _m in (G, NP, SP):
    if hasattr(_m, "docstring_warning"):
        _m.docstring_warning = lambda *a, **k: None
import _griffe as _G

SCHEMA_PATH = str(Path(_G.__file__).resolve().parents[2] / "docs" / "schema.json")  # the schema published by the tree under analysis (/repo/docs/schema.json)
SCHEMA = json.load(open(SCHEMA_PATH))
VALIDATOR = jsonschema.Draft7Validator(SCHEMA)

DOCS = {
    "google": "Summary.\n\nArgs:\n    p (int): d.\n\nOther Parameters:\n    o: d.\n\nRaises:\n    E: d.\n\nWarns:\n    W: d.\n\nReturns:\n    int: d.\n\nYields:\n    int: d.\n\nReceives:\n    int: d.\n\n"
              "Examples:\n    >>> 1\n\nAttributes:\n    a (int): d.\n\nFunctions:\n    f(): d.\n\nClasses:\n    C: d.\n\nModules:\n    m: d.\n\nDeprecated:\n    1.0: d.\n\nNote:\n    text.\n",
    "numpy": "Summary.\n\nParameters\n----------\np : int\n    d.\n\nOther Parameters\n----------------\no : int\n    d.\n\nRaises\n------\nE\n    d.\n\nWarns\n-----\nW\n    d.\n\nReturns\n-------\nint\n    d.\n\n"
             "Yields\n------\nint\n    d.\n\nReceives\n--------\nint\n    d.\n\nExamples\n--------\n>>> 1\n\nAttributes\n----------\na : int\n    d.\n\nFunctions\n---------\nf()\n    d.\n\nClasses\n-------\nC\n    d.\n\n"
             "Modules\n-------\nm\n    d.\n\nDeprecated\n----------\n1.0\n    d.\n\n.. note::\n    text.\n",
    "sphinx": "Summary.\n\n:param int p: d.\n:type p: int\n:raises E: d.\n:returns: d.\n:rtype: int\n:var a: d.\n:vartype a: int\n",
    "none": "Summary.",
}
STYLES = list(DOCS)


def validate(doc, what):
    errs = sorted(VALIDATOR.iter_errors(doc), key=lambda e: list(e.absolute_path))
    if errs:
        e = errs[0]
        # the most specific message of a oneOf failure
        best = max(e.context, key=lambda c: len(list(c.absolute_path))) if e.context else e
        return f"{what}: schema violation at /{'/'.join(map(str, best.absolute_path))}: {best.message[:300]}"
    return None


def tree(fp_kind, ei, style, f_l, f_e, al_l, al_e, ds_l, ds_e, has_doc, labels, pkind):
    mod = build_tree(fp_kind, ei, f_l, f_e, 1, 2, 1, 1, al_l, al_e, ds_l, ds_e, has_doc, "d", labels, pkind)
    if fp_kind == 0:
        mod._filepath = Path.cwd() / "pkg" / "m.py"
    elif fp_kind == 1:
        mod._filepath = [Path.cwd() / "a" / "m", Path.cwd() / "b" / "m"]  # a namespace package inside the working directory
    # objects and aliases that only exist for type checkers (`if TYPE_CHECKING:` imports / definitions): runtime=False
    mod.set_member("tg_alias", Alias("tg_alias", "typing.Iterator", lineno=1, endlineno=1, runtime=False))
    mod.set_member("tg_attr", Attribute("tg_attr", lineno=1, endlineno=1, runtime=False))
    if has_doc:
        for o in (mod.members["f"], mod.members["C"]):
            o.docstring.value = DOCS[style]
            o.docstring.parser = None if style == "none" else style
            o.docstring.parent = o
    return mod


def _pre(fp_kind, ei, style, f_l, f_e, al_l, al_e, ds_l, ds_e, has_doc, labels, pkind):
    for v in (f_l, f_e, al_l, al_e, ds_l, ds_e):
        if not (-1 <= v <= 1):
            return False
    if not has_doc and (ds_l != -1 or ds_e != -1):
        return False
    return 0 <= labels <= 3 and 0 <= pkind <= 4


PIN = dict(f_l=1, f_e=1, al_l=1, al_e=1, ds_l=1, ds_e=1, has_doc=True, labels=0, pkind=1)
GROUPS = {
    # loaded from files on disk, statically (objects have spans) or dynamically (aliases/docstrings may lack line numbers; dataclass extension uses 0)
    "aliases": (("al_l", "al_e"), [(0, _IDX["Name"], "none"), (1, _IDX["Name"], "none")], ("imp", "C.al")),
    "docstring_spans": (("has_doc", "ds_l", "ds_e"), [(0, _IDX["Name"], "google")], ("f",)),
    "function": (("f_l", "f_e", "labels"), [(0, _IDX["Attribute"], "none"), (1, _IDX["Attribute"], "none")], ("f",)),
    "sections": (("ds_e",), [(fp, _IDX["Name"], st) for fp in (0, 1) for st in STYLES], ("f", "C")),
    "expressions": (("pkind",), [(0, i, "none") for i in range(len(MENU))], ("f", "C", "C.x")),
}


def _make(group, free, combos, focus):
    def shards():
        cases = [{**{k: v for k, v in PIN.items() if k not in free}, "fp_kind": fp, "ei": ei, "style": st} for fp, ei, st in combos]
        step = tiered(4, 2)
        return [(f"{group} part {j // step}", None, cases[j : j + step]) for j in range(0, len(cases), step)]

    @obligation(
        pid="C09", name=f"schema_{group}", pre=_pre, shards=shards, timeout=tiered(280, 1200), path_timeout=60.0,
        drives=[JSONEncoder.default, Object.as_dict, Alias.as_dict, Module.as_dict, Class.as_dict, Function.as_dict, Attribute.as_dict, Docstring.as_dict, DocstringSection.as_dict],
        bounds={"tree": "the C08 tree plus a type-guarded alias and attribute (runtime=False), full=True", "free fields in this group": list(free), "line numbers": "None, 0, 1", "module filepath": "regular file / namespace package (list) inside the cwd",
                "docstring styles": STYLES, "expression shapes": sorted({MENU[ei][0] for _, ei, _ in combos})},
        value_symbolic=list(free), selectors=["module filepath kind, expression shape, docstring style (driver-bound)"],
        stubs=STUBS + [f"schema read from {SCHEMA_PATH} at run time; jsonschema validation runs outside the tracer on the realised document"],
        must_cover=["validated"], grid=lambda seed: [dict(fp_kind=fp, ei=ei, style=st, **PIN) for fp, ei, st in combos[:6]],
    )
    def schema_check(fp_kind: int, ei: int, style: str, f_l: int, f_e: int, al_l: int, al_e: int, ds_l: int, ds_e: int, has_doc: bool, labels: int, pkind: int) -> bool:
        """Every object of the full dump validates against docs/schema.json."""
        from vlib.stubs import realize_value

        mod = tree(fp_kind, ei, style, f_l, f_e, al_l, al_e, ds_l, ds_e, has_doc, labels, pkind)
        docs = [(path, plain(getm(mod, path), True)) for path in focus]
        args = [realize_value(v) for v in (fp_kind, ei, style, f_l, f_e, al_l, al_e, ds_l, ds_e, has_doc, labels, pkind)]

        def native_part():
            for path, doc in docs:
                err = validate(doc, path)
                if err:
                    return err
            modc = tree(*args)
            whole = json.loads(json.dumps(modc, cls=JSONEncoder, full=True))
            for path, doc in docs:
                d = whole
                for part in path.split("."):
                    d = d["members"][part]
                if d != doc:
                    return f"symbolic traversal of {path} disagrees with json.dumps (harness defect)"
            return validate(whole, "module")

        err = _native(native_part)
        if err:
            return fail(err)
        cover("validated")
        return True

    schema_check.__name__ = f"schema_{group}"
    return schema_check


for _g, (_free, _combos, _focus) in GROUPS.items():
    _make(_g, _free, _combos, _focus)
