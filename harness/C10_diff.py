"""C10 — no call-breaking signature change goes unreported (engine S: vlib.pysymex + z3).

`diff._function_incompatibilities` (and everything it calls inside _griffe) is interpreted from its current
source over two symbolic signatures; the CPython binder is a z3 reference model (`binds`) validated on every
run against real calls of real `def`s over the full concrete grid for N <= 2.
"""
from __future__ import annotations

import inspect
import itertools
import time

import z3

import _griffe.diff as D
import _griffe.models as M
from _griffe.enumerations import ParameterKind as PK
from vlib import ob as OB
from vlib.ob import Obligation, tiered
from vlib.pysymex import Codec, Engine, Interp, SRecord, SV, Unsupported

KIND_LIST = [PK.positional_only, PK.positional_or_keyword, PK.var_positional, PK.keyword_only, PK.var_keyword]
KINDS = Codec("kind", KIND_LIST)
ALPHA = tiered(["a", "b", "c"], ["a", "b", "c"])
NAMES = Codec("name", ALPHA)
DEF_LIST = [None, "0", "1", "()", "{}"]
DEFS = Codec("default", DEF_LIST)
RET_LIST = [None, "int", "str"]
RETS = Codec("returns", RET_LIST)
N = tiered(2, 3)

DRIVES = [D._function_incompatibilities, D._returns_are_compatible, M.Parameter.required, M.Parameters.__contains__, M.Parameters.__getitem__, M.Parameters.__iter__]


# ------------------------------------------------------------------ symbolic signatures
def mk_sig(prefix, n):
    slots, cons = [], []
    for i in range(n):
        nm, kd, df = z3.Int(f"{prefix}_name{i}"), z3.Int(f"{prefix}_kind{i}"), z3.Int(f"{prefix}_def{i}")
        cons += [nm >= 0, nm < len(ALPHA), kd >= 0, kd <= 4, df >= 0, df <= 4]
        # the visitor gives variadics the defaults "()" / "{}"; ordinary parameters have None, "0" or "1"
        cons += [z3.Implies(kd == 2, df == 3), z3.Implies(kd == 4, df == 4), z3.Implies(z3.And(kd != 2, kd != 4), df <= 2)]
        slots.append((nm, kd, df))
    for i in range(n):
        for j in range(i + 1, n):
            cons.append(slots[i][0] != slots[j][0])  # distinct names
            cons.append(slots[i][1] <= slots[j][1])  # kinds in the order CPython requires
            cons.append(z3.Implies(slots[i][1] == slots[j][1], z3.And(slots[i][1] != 2, slots[i][1] != 4)))  # one *a, one **k
            cons.append(z3.Implies(z3.And(slots[i][1] <= 1, slots[j][1] <= 1, slots[i][2] != 0), slots[j][2] != 0))  # non-default after default
    return slots, cons


def binds(slots, npos, given):
    """Reference model of CPython's argument binding: npos positional args and keyword names {a: given[a]}."""
    n = len(slots)
    positional = [s[1] <= 1 for s in slots]
    npositional = z3.Sum([z3.If(p, 1, 0) for p in positional]) if n else z3.IntVal(0)
    has_var = z3.Or([s[1] == 2 for s in slots]) if n else z3.BoolVal(False)
    has_kw = z3.Or([s[1] == 4 for s in slots]) if n else z3.BoolVal(False)
    ok = [z3.Or(npos <= npositional, has_var)]
    for a in range(len(ALPHA)):
        acc = z3.Or([z3.And(s[0] == a, z3.Or(s[1] == 1, s[1] == 3)) for s in slots]) if n else z3.BoolVal(False)
        ok.append(z3.Implies(given[a], z3.Or(acc, has_kw)))
    for i, s in enumerate(slots):
        filled_pos = z3.And(positional[i], npos > i)
        kw = z3.And(z3.Or(s[1] == 1, s[1] == 3), z3.Or([z3.And(s[0] == a, given[a]) for a in range(len(ALPHA))]))
        ok.append(z3.Not(z3.And(filled_pos, kw)))
        ok.append(z3.Implies(z3.And(z3.Or(s[1] <= 1, s[1] == 3), s[2] == 0), z3.Or(filled_pos, kw)))
    return z3.And(ok)


def record_fn(slots, ret):
    params = [SRecord(M.Parameter, name=SV(nm, NAMES), kind=SV(kd, KINDS), default=SV(df, DEFS), annotation=None, docstring=None, function=None) for nm, kd, df in slots]
    ps = SRecord(M.Parameters, _params=params)
    return SRecord(M.Function, name="f", parameters=ps, returns=SV(ret, RETS), decorators=[], overloads=None)


def sig_eq(s1, s2):
    return z3.And([z3.And(a[0] == b[0], a[1] == b[1], a[2] == b[2]) for a, b in zip(s1, s2)]) if s1 else z3.BoolVal(True)


def changed(old, new, pname):
    """z3: parameter named `pname` differs in presence, kind, position or default between old and new."""
    same = [z3.And(o[0] == pname, nw[0] == pname, o[1] == nw[1], o[2] == nw[2]) for i, o in enumerate(old) for j, nw in enumerate(new) if i == j]
    return z3.Not(z3.Or(same)) if same else z3.BoolVal(True)


# known-finding regions as z3 constraints over (old, new) (the same regions as python predicates are in REGION_PY)
def region_z3(name, old, new):
    if name == "posonly_to_poskw_with_var_keyword":
        has_kw_old = z3.Or([o[1] == 4 for o in old]) if old else z3.BoolVal(False)
        pairs = [z3.And(o[0] == nw[0], o[1] == 0, z3.Or(nw[1] == 1, nw[1] == 3)) for o in old for nw in new]
        return z3.And(has_kw_old, z3.Or(pairs) if pairs else z3.BoolVal(False))
    if name == "new_poskw_slot_fillable_positionally_and_by_keyword_in_old":
        n_old_pos = z3.Sum([z3.If(o[1] <= 1, 1, 0) for o in old]) if old else z3.IntVal(0)
        old_var = z3.Or([o[1] == 2 for o in old]) if old else z3.BoolVal(False)
        old_kw = z3.Or([o[1] == 4 for o in old]) if old else z3.BoolVal(False)
        terms = []
        for j, nw in enumerate(new):
            kwonly_in_old = z3.Or([z3.And(o[0] == nw[0], o[1] == 3) for o in old]) if old else z3.BoolVal(False)
            named_in_old = z3.Or([z3.And(o[0] == nw[0], z3.Or(o[1] == 1, o[1] == 3)) for o in old]) if old else z3.BoolVal(False)
            accepts_kw = z3.Or(kwonly_in_old, z3.And(old_kw, z3.Not(named_in_old)))
            terms.append(z3.And(nw[1] == 1, accepts_kw, z3.Or(old_var, n_old_pos > j)))
        return z3.Or(terms) if terms else z3.BoolVal(False)
    raise KeyError(name)


def region_py(name, old, new):
    if name == "new_poskw_slot_fillable_positionally_and_by_keyword_in_old":
        n_old_pos = sum(1 for o in old if o[1] in ("positional_only", "positional_or_keyword"))
        old_var = any(o[1] == "var_positional" for o in old)
        old_kw = any(o[1] == "var_keyword" for o in old)
        for j, nw in enumerate(new):
            kwonly_in_old = any(o[0] == nw[0] and o[1] == "keyword_only" for o in old)
            named_in_old = any(o[0] == nw[0] and o[1] in ("positional_or_keyword", "keyword_only") for o in old)
            if nw[1] == "positional_or_keyword" and (kwonly_in_old or (old_kw and not named_in_old)) and (old_var or n_old_pos > j):
                return True
        return False
    if name == "posonly_to_poskw_with_var_keyword":
        return any(o[1] == "var_keyword" for o in old) and any(o[0] == nw[0] and o[1] == "positional_only" and nw[1] in ("positional_or_keyword", "keyword_only") for o in old for nw in new)
    raise KeyError(name)


def decode(m, slots):
    return [[ALPHA[m.eval(s[0], model_completion=True).as_long()], KIND_LIST[m.eval(s[1], model_completion=True).as_long()].name,
             DEF_LIST[m.eval(s[2], model_completion=True).as_long()]] for s in slots]


PAIRS = sorted([(i, j) for i in range(N + 1) for j in range(N + 1)], key=lambda p: (-p[0] - p[1], p))


def shard_pairs():
    return [(f"n_old={i},n_new={j}", None) for i, j in PAIRS]


def _run_query(query, shard, twin, excluded):
    n_old, n_new = PAIRS[shard]
    eng = Engine()
    interp = Interp(eng)
    t0 = time.time()
    npos = z3.Int("npos")
    given = [z3.Bool(f"kw_{a}") for a in ALPHA]
    ro, rn = z3.Int("ret_old"), z3.Int("ret_new")
    old, c1 = mk_sig("old", n_old)
    new, c2 = mk_sig("new", n_new)
    base = c1 + c2 + [npos >= 0, npos <= N + 1, ro >= 0, ro < len(RET_LIST), rn >= 0, rn < len(RET_LIST)]
    for r in excluded:
        base.append(z3.Not(region_z3(r, old, new)))
    cover = set()
    cex = None
    antecedent_seen = False
    _explore = eng.explore

    def guarded_explore(thunk, base_constraints):
        # an antecedent that no signature pair of these lengths satisfies makes the shard trivially true
        eng.pc = list(base_constraints)
        if not eng.check():
            cover.add("antecedent_unsat_for_these_lengths")
            return
        yield from _explore(thunk, base_constraints)

    eng.explore = guarded_explore

    def model_args(extra=()):
        m = eng.model(*extra)
        return {"query": query, "old": decode(m, old), "new": decode(m, new), "npos": m.eval(npos, model_completion=True).as_long(),
                "kw": [a for a, g in zip(ALPHA, given) if z3.is_true(m.eval(g, model_completion=True))],
                "ret_old": RET_LIST[m.eval(ro, model_completion=True).as_long()], "ret_new": RET_LIST[m.eval(rn, model_completion=True).as_long()]}

    if query == "q1":
        # completeness: a call that old binds and new rejects => at least one breakage (paths cut at the first yield)
        ante = z3.And(binds(old, npos, given), z3.Not(binds(new, npos, given)))
        base.append(ante)

        def thunk():
            gen = interp.call_function(D._function_incompatibilities, [record_fn(old, ro), record_fn(new, rn)], {})
            return next(gen, None)

        for first in eng.explore(thunk, base):
            antecedent_seen = True
            if first is None:
                cover.add("silent_path")
                if eng.check():
                    cex = model_args()
                    break
            else:
                cover.add("reported:" + type(first).__name__)
            if twin and eng.check():
                cex = model_args()
                break
    elif query == "q2":
        # moved positional / changed default / optional->required are always reported
        ante_terms = []
        for i, o in enumerate(old):
            for j, nw in enumerate(new):
                same = o[0] == nw[0]
                ante_terms.append(z3.And(same, o[1] <= 1, nw[1] <= 1, i != j))  # moved positional
                ante_terms.append(z3.And(same, o[2] != 0, nw[2] != 0, o[1] != 2, o[1] != 4, nw[1] != 2, nw[1] != 4, o[2] != nw[2]))  # default changed
                ante_terms.append(z3.And(same, o[2] != 0, nw[2] == 0, nw[1] != 2, nw[1] != 4))  # optional -> required
        if not ante_terms:
            return _result(query, shard, eng, t0, "confirmed", None, cover | {"empty_antecedent"}, twin, trivially=True)
        base.append(z3.Or(ante_terms))

        def thunk():
            gen = interp.call_function(D._function_incompatibilities, [record_fn(old, ro), record_fn(new, rn)], {})
            return next(gen, None)

        for first in eng.explore(thunk, base):
            antecedent_seen = True
            if first is None:
                if eng.check():
                    cex = model_args()
                    break
            else:
                cover.add("reported:" + type(first).__name__)
            if twin and eng.check():
                cex = model_args()
                break
    elif query == "q3":
        # identical signatures => no report at all
        if n_old != n_new:
            return _result(query, shard, eng, t0, "confirmed", None, {"n/a: different lengths"}, twin, trivially=True)
        base += [sig_eq(old, new), ro == rn]

        def thunk():
            gen = interp.call_function(D._function_incompatibilities, [record_fn(old, ro), record_fn(new, rn)], {})
            return next(gen, None)

        for first in eng.explore(thunk, base):
            antecedent_seen = True
            cover.add("identical_explored")
            if first is not None and eng.check():
                cex = model_args()
                break
            if twin and eng.check():
                cex = model_args()
                break
    elif query == "q4":
        # every reported parameter breakage names a parameter that actually changed
        def thunk():
            gen = interp.call_function(D._function_incompatibilities, [record_fn(old, ro), record_fn(new, rn)], {})
            return list(gen)

        for yielded in eng.explore(thunk, base):
            antecedent_seen = True
            for b in yielded:
                p = b.old_value if isinstance(b.old_value, SRecord) else b.new_value
                if not isinstance(p, SRecord):
                    cover.add("non-parameter:" + type(b).__name__)
                    continue
                cover.add("checked:" + type(b).__name__)
                bad = z3.Not(changed(old, new, p._fields["name"].e))
                if eng.check(bad):
                    cex = model_args((bad,))
                    cex["reported"] = type(b).__name__
                    break
            if cex:
                break
            if twin and eng.check():
                cex = model_args()
                break
    else:
        raise KeyError(query)
    if twin and cex is None:
        return _result(query, shard, eng, t0, "confirmed", None, cover, twin)
    if not antecedent_seen and not twin:
        cover.add("antecedent_unsat_for_these_lengths")
    return _result(query, shard, eng, t0, "refuted" if cex else "confirmed", cex, cover, twin)


def _result(query, shard, eng, t0, verdict, cex, cover, twin, trivially=False):
    return {"engine": "S", "shard": shard_pairs()[shard][0], "verdict": verdict, "counterexample": cex, "paths": eng.paths, "confirmed_paths": eng.paths,
            "solver_checks": eng.queries, "solver_seconds": round(eng.solver_time, 3), "wall_s": round(time.time() - t0, 2), "cpu_s": round(time.time() - t0, 2),
            "cover": sorted(cover), "message": "trivial for these lengths" if trivially else "", "twin": twin}


# ------------------------------------------------------------------ native side (replay + validation)
def render(sig, ret):
    parts = []
    kinds = [k for _, k, _ in sig]
    for i, (nm, k, d) in enumerate(sig):
        if k == "keyword_only" and "var_positional" not in kinds and (i == 0 or sig[i - 1][1] != "keyword_only"):
            parts.append("*")
        if k == "var_positional":
            parts.append("*" + nm)
        elif k == "var_keyword":
            parts.append("**" + nm)
        else:
            parts.append(nm + (f"={d}" if d is not None else ""))
        if k == "positional_only" and (i + 1 == len(sig) or sig[i + 1][1] != "positional_only"):
            parts.append("/")
    return f"def f({', '.join(parts)})" + (f" -> {ret}" if ret else "") + ": ..."


def really_binds(src, npos, kw):
    # the oracle is CPython's own call machinery (a real call of the real def; the body is `...`).
    # inspect.Signature.bind is NOT used: in 3.12 it wrongly rejects f(a=1) for `def f(a=0, /, **b)`.
    ns = {}
    exec(src, ns)  # noqa: S102
    try:
        ns["f"](*([0] * npos), **{k: 0 for k in kw})
        return True
    except TypeError:
        return False


def native_case(query, old, new, npos, kw, ret_old, ret_new, reported=None) -> bool:
    """Replay through the public API: real `def`s, CPython's binder, griffe.visit + find_breaking_changes."""
    from _griffe.agents.visitor import visit
    from _griffe.diff import find_breaking_changes

    so, sn = render(old, ret_old), render(new, ret_new)
    compile(so, "old", "exec")
    compile(sn, "new", "exec")
    mo, mn = visit("mod", filepath=None, code=so), visit("mod", filepath=None, code=sn)  # type: ignore[arg-type]
    breaks = list(find_breaking_changes(mo, mn))
    kinds = [b.kind.name for b in breaks]
    if query == "q1":
        if really_binds(so, npos, kw) and not really_binds(sn, npos, kw) and not breaks:
            return OB.fail(f"`{so}` -> `{sn}`: call f(*{[0] * npos}, **{ {k: 0 for k in kw} }) binds before, raises TypeError after, find_breaking_changes reports nothing")
        return True
    if query == "q2":
        on = {p[0]: (i, p) for i, p in enumerate(old)}
        for j, nw in enumerate(new):
            if nw[0] in on:
                i, o = on[nw[0]]
                pos = ("positional_only", "positional_or_keyword")
                var = ("var_positional", "var_keyword")
                trig = (o[1] in pos and nw[1] in pos and i != j) or (o[2] is not None and nw[2] is not None and o[1] not in var and nw[1] not in var and o[2] != nw[2]) or (o[2] is not None and nw[2] is None and nw[1] not in var)
                if trig and not breaks:
                    return OB.fail(f"`{so}` -> `{sn}`: parameter {nw[0]} moved / changed default / became required, nothing reported")
        return True
    if query == "q3":
        if old == new and ret_old == ret_new and breaks:
            return OB.fail(f"`{so}` compared with itself reports {kinds}")
        return True
    if query == "q4":
        for b in breaks:
            p = b.old_value if isinstance(b.old_value, M.Parameter) else b.new_value
            if not isinstance(p, M.Parameter):
                continue
            o = [(i, x) for i, x in enumerate(old) if x[0] == p.name]
            nw = [(i, x) for i, x in enumerate(new) if x[0] == p.name]
            if o and nw and o[0][0] == nw[0][0] and o[0][1][1:] == nw[0][1][1:]:
                return OB.fail(f"`{so}` -> `{sn}`: {b.kind.name} reported for unchanged parameter {p.name}")
        return True
    raise KeyError(query)


def _valid_sigs(n):
    out = []
    for names in itertools.permutations(ALPHA, n):
        for kinds in itertools.product(range(5), repeat=n):
            if list(kinds) != sorted(kinds) or kinds.count(2) > 1 or kinds.count(4) > 1:
                continue
            for defs in itertools.product(range(3), repeat=n):
                ok = True
                seen_def = False
                for k, d in zip(kinds, defs):
                    if k <= 1:
                        if d != 0:
                            seen_def = True
                        elif seen_def:
                            ok = False
                if ok:
                    out.append([[nm, KIND_LIST[k].name, ("()" if k == 2 else "{}" if k == 4 else DEF_LIST[d])] for nm, k, d in zip(names, kinds, defs)])
    return out


def validate_models(seed):
    """(a) z3 `binds` == inspect.Signature.bind on the concrete grid; (b) interpreter in concrete mode == native."""
    import random

    rnd = random.Random(seed)
    sigs = [s for n in range(3) for s in _valid_sigs(n)]
    # de-duplicate variadic default variants
    uniq = []
    seen = set()
    for s in sigs:
        k = repr(s)
        if k not in seen:
            seen.add(k)
            uniq.append(s)
    checked = 0
    mismatches = []
    npos_v = z3.Int("npos")
    given_v = [z3.Bool(f"kw_{a}") for a in ALPHA]
    for s in uniq:
        slots = [(z3.IntVal(ALPHA.index(nm)), z3.IntVal([k.name for k in KIND_LIST].index(kd)), z3.IntVal(DEF_LIST.index(df))) for nm, kd, df in s]
        src = render(s, None)
        expr = binds(slots, npos_v, given_v)
        for npos in range(0, 4):
            for r in range(len(ALPHA) + 1):
                for kw in itertools.combinations(ALPHA, r):
                    sub = [(npos_v, z3.IntVal(npos))] + [(g, z3.BoolVal(a in kw)) for a, g in zip(ALPHA, given_v)]
                    model_says = z3.is_true(z3.simplify(z3.substitute(expr, *sub)))
                    checked += 1
                    if model_says != really_binds(src, npos, kw):
                        mismatches.append(("binds", src, npos, kw, model_says))
    # (b) interpreter vs native on concrete pairs
    eng = Engine()
    interp = Interp(eng)
    pairs = [(rnd.choice(uniq), rnd.choice(uniq)) for _ in range(300)]
    for o, nw in pairs:
        def mk(sig, ret, symbolic):
            ps = []
            for nm, kd, df in sig:
                kind = PK[kd]
                ps.append(SRecord(M.Parameter, name=nm, kind=kind, default=df, annotation=None, docstring=None, function=None) if symbolic else M.Parameter(nm, kind=kind, default=df))
            if symbolic:
                return SRecord(M.Function, name="f", parameters=SRecord(M.Parameters, _params=ps), returns=ret, decorators=[], overloads=None)
            return M.Function("f", parameters=M.Parameters(*ps), returns=ret)
        ro, rn = rnd.choice(RET_LIST), rnd.choice(RET_LIST)
        native = [type(b).__name__ for b in D._function_incompatibilities(mk(o, ro, False), mk(nw, rn, False))]

        def thunk():
            return [type(b).__name__ for b in interp.call_function(D._function_incompatibilities, [mk(o, ro, True), mk(nw, rn, True)], {})]

        got = list(eng.explore(thunk))
        checked += 1
        if got != [native]:
            mismatches.append(("interp", render(o, ro), render(nw, rn), native, got))
    return checked, mismatches


def _grid(seed):
    import random

    rnd = random.Random(seed)
    sigs = [s for n in range(3) for s in _valid_sigs(n)]
    pts = []
    for q in ("q1", "q2", "q3", "q4"):
        for _ in range(40):
            o = rnd.choice(sigs)
            nw = o if q == "q3" else rnd.choice(sigs)
            pts.append(dict(query=q, old=o, new=nw, npos=rnd.randint(0, 3), kw=rnd.sample(ALPHA, rnd.randint(0, 2)), ret_old=None, ret_new=None))
    return pts


def _pre(query, old, new, npos, kw, ret_old, ret_new, reported=None):
    return True


_VALIDATED = {}


def _make(query, doc, must):
    def run(shard, twin, excluded):
        if query == "q4" and sum(PAIRS[shard]) > 5:
            return {"verdict": "confirmed", "message": "outside the stated bound of q4 (n_old + n_new <= 5)", "paths": 0, "confirmed_paths": 0, "solver_checks": 0, "solver_seconds": 0, "cover": ["skipped:n_old+n_new>5"], "shard": shard_pairs()[shard][0], "twin": twin,
                    "counterexample": None} if not twin else _run_query(query, 1, twin, excluded)
        if shard == 0 and not twin:
            checked, mism = validate_models(OB.SEED)
            if mism:
                return {"verdict": "error", "message": f"reference model / interpreter validation failed: {mism[:3]}", "paths": 0, "solver_checks": 0, "solver_seconds": 0}
            res = _run_query(query, shard, twin, excluded)
            res["extra"] = {"validation_cases(binds vs real calls; interpreter vs native)": checked}
            return res
        try:
            return _run_query(query, shard, twin, excluded)
        except Unsupported as e:
            return {"verdict": "unknown", "message": f"interpreter: unsupported construct: {e}", "paths": 0, "solver_checks": 0, "solver_seconds": 0}

    def fn(query, old, new, npos, kw, ret_old, ret_new, reported=None):
        return native_case(query, old, new, npos, kw, ret_old, ret_new, reported)

    ob = Obligation(
        pid="C10", name=f"{query}_{doc.split(':')[0]}", engine="S", fn=fn, pre=_pre, run=run, module=__name__, doc=doc,
        shards=shard_pairs, timeout=tiered(120, 1500), drives=DRIVES,
        bounds={"parameters per signature": f"0..{N}" + (" (q4: n_old + n_new <= 5)" if query == "q4" and N > 2 else ""), "names": ALPHA, "kinds": 5, "defaults": ["none", "0", "1"], "call": f"0..{N + 1} positional args, any subset of {ALPHA} as keywords", "returns": RET_LIST},
        value_symbolic=["name, kind, default of every parameter of both signatures (z3 ints over finite codecs, validity of the def as a constraint)", "number of positional arguments, set of keyword names of the call", "return annotations"],
        selectors=["(n_old, n_new): list lengths are unrolled concretely, one shard per pair"],
        assumptions=["reference binder `binds` (z3) validated against real calls of real defs (CPython's own binder) on the full grid N<=2 at run time", "pysymex agrees with CPython on the interpreted subset (differential pass on 300 concrete pairs per run)"],
        must_cover=must, grid=(lambda seed: [p for p in _grid(seed) if p["query"] == query]),
    )
    OB.REGISTRY[ob.name] = ob


_make("q1", "completeness: a call bound by old and rejected by new => some breakage is reported", ["reported:ParameterRemovedBreakage"])
_make("q2", "rules: moved positional / changed default / optional->required => reported", [])
_make("q3", "identity: identical signatures => nothing reported", ["identical_explored"])
_make("q4", "precision: every reported parameter breakage names a parameter that changed", ["checked:ParameterRemovedBreakage"])
