"""C11 — API diff: silent on compatible change, reports every public removal / re-kinding (engine X).

Two-version histories = (base tree, edit). The edited object's NAME and the module's __all__ are symbolic, so the
public/private frontier (_x, __x__, listed/unlisted in __all__, imported) is crossed by solving; the kind of object, the
exposure route (direct, re-export alias from a private module, class member, inherited member) and the edit are bound by
the driver. Oracle: incompatible edit on a public object => >= 1 breakage located at one of that object's public paths;
private / imported-not-exported => nothing; compatible edit => nothing at all.
"""
from __future__ import annotations

from pathlib import Path

import _griffe.diff as D
from _griffe.collections import ModulesCollection
from _griffe.diff import find_breaking_changes
from _griffe.enumerations import ExplanationStyle
from _griffe.enumerations import ParameterKind as PK
from _griffe.models import Alias, Attribute, Class, Function, Module, Parameter, Parameters
from vlib.ob import TIER, cover, fail, obligation, tiered
from vlib.stubs import plain_error_messages, silence_logging

STUBS = silence_logging() + plain_error_messages()
KINDS = ["function", "class", "attribute"]
ROUTES = ["direct", "reexport", "member", "inherited", "submodule"]
EDITS_BREAKING = ["remove", "rekind", "change"]  # change = remove a parameter / remove a base / change the value
EDITS_COMPATIBLE = ["identity", "add_public", "add_optional_kwarg", "reorder_members"]


def _obj(kind, name, variant=0):
    if kind == "function":
        ps = [Parameter("a", kind=PK.positional_or_keyword), Parameter("b", kind=PK.positional_or_keyword, default="0")]
        if variant == "change":
            ps = ps[:1]
        if variant == "add_optional_kwarg":
            ps.append(Parameter("k", kind=PK.keyword_only, default="None"))
        return Function(name, parameters=Parameters(*ps), lineno=1, endlineno=2)
    if kind == "class":
        return Class(name, bases=["Base1"] if variant == "change" else ["Base1", "Base2"], lineno=1, endlineno=2)
    return Attribute(name, value="2" if variant == "change" else "1", lineno=1, endlineno=1)


def build(kind, route, name, nexports, e1, edit, old):
    """One version of the package. `old` selects the base version; otherwise `edit` is applied."""
    col = ModulesCollection()
    pkg = Module("pkg", filepath=Path("/x/pkg/__init__.py"))
    col.set_member("pkg", pkg)
    priv = Module("_impl", filepath=Path("/x/pkg/_impl.py"))
    pkg.set_member("_impl", priv)
    pkg.set_member("keep", Function("keep", parameters=Parameters(), lineno=9, endlineno=9))
    holder = Class("Holder", lineno=10, endlineno=20)
    pkg.set_member("Holder", holder)
    # route "inherited": the member lives in a PRIVATE base class, so its only public path is the inherited one (pkg.Sub.<name>)
    hidden = Class("_Hidden", lineno=23, endlineno=30)
    pkg.set_member("_Hidden", hidden)
    sub = Class("Sub", bases=["pkg._Hidden" if route == "inherited" else "pkg.Holder"], lineno=21, endlineno=22)
    pkg.set_member("Sub", sub)
    if nexports >= 0:
        pkg.exports = [e1, "keep", "Holder", "Sub"][: nexports + 3] if nexports else ["keep", "Holder", "Sub"]
        pkg.exports = ([e1] if nexports else []) + ["keep", "Holder", "Sub"]
    variant = 0 if old else edit
    present = old or edit != "remove"
    k = kind
    if not old and edit == "rekind":
        k = "attribute" if kind != "attribute" else "function"
    target = _obj(k, name, variant if variant in ("change", "add_optional_kwarg") else 0) if present else None
    if route == "direct":
        if target is not None:
            pkg.set_member(name, target)
    elif route == "reexport":
        # the object lives in the private module and is re-exported by `from ._impl import name`
        if target is not None:
            priv.set_member(name, target)
            al = Alias(name, f"pkg._impl.{name}", lineno=3, endlineno=3)
            pkg.set_member(name, al)
            pkg.imports[name] = f"pkg._impl.{name}"
            al.target  # noqa: B018  (resolved, as `check` loads with resolve_aliases=True)
    elif route == "submodule":
        # the object lives in the public submodule pkg.util, which the package's __all__ (if any) does not list:
        # modules follow the underscore convention only
        util = Module("util", filepath=Path("/x/pkg/util.py"))
        pkg.set_member("util", util)
        if target is not None:
            util.set_member(name, target)
    elif route == "inherited":
        if target is not None:
            hidden.set_member(name, target)
    else:  # member: the object is a member of the public class Holder (and inherited by Sub)
        if target is not None:
            holder.set_member(name, target)
    if not old and edit == "add_public":
        pkg.set_member("brand_new", Function("brand_new", parameters=Parameters(), lineno=30, endlineno=30))
    if not old and edit == "reorder_members":
        items = list(pkg.members.items())
        pkg.members.clear()
        for kk, vv in reversed(items):
            pkg.members[kk] = vv
    return pkg


def ref_public(route, name, exports, kind):
    special = name.startswith("__") and name.endswith("__")
    private = name.startswith("_") and not special
    if route in ("member", "inherited"):
        return not private
    if route == "submodule":
        return not private  # pkg.util has no __all__; the submodule itself is public whatever pkg.__all__ says
    if exports:
        return name in exports
    if private:
        return False
    if route == "reexport":
        return False  # imported and not listed in __all__
    return True


def _cases():
    out = []
    for kind in KINDS:
        for route in ROUTES:
            for edit in EDITS_BREAKING + EDITS_COMPATIBLE:
                if edit == "add_optional_kwarg" and kind != "function":
                    continue
                out.append(dict(kind=kind, route=route, edit=edit))
    return out


@obligation(
    pid="C11", name="verdict", timeout=tiered(280, 1200),
    shards=lambda: [(f"kind={k},route={r}", None, [c for c in _cases() if c["kind"] == k and c["route"] == r]) for k in KINDS for r in ROUTES],
    pre=lambda kind, route, edit, name, nexports, e1: 1 <= len(name) <= tiered(3, 5) and all(c in "_a" for c in name) and name not in ("keep",) and -1 <= nexports <= 1
    and 1 <= len(e1) <= tiered(3, 5) and all(c in "_a" for c in e1) and (nexports == 1 or e1 == "a"),
    drives=[find_breaking_changes, D._member_incompatibilities, D._type_based_yield, D._alias_incompatibilities, D._class_incompatibilities, D._attribute_incompatibilities, D._function_incompatibilities],
    bounds={"package": "pkg{_impl, keep(), Holder, _Hidden, Sub(Holder | _Hidden)} + one edited object (route inherited: member of the private base _Hidden, public only as pkg.Sub.<name>)", "object kind": KINDS, "exposure route": ROUTES, "edit": EDITS_BREAKING + EDITS_COMPATIBLE,
            "name": f"1..{tiered(3, 5)} chars over '_a' (a, _a, __a, __, a_, ...)", "__all__": "absent, ['keep','Holder','Sub'], or [e1,'keep','Holder','Sub'] with e1 symbolic"},
    value_symbolic=["name of the edited object", "__all__ presence and its first entry"], selectors=["object kind, exposure route, edit (driver-bound)"], stubs=STUBS,
    must_cover=["reported-public", "silent-private", "silent-compatible", "reported-via-inheritance"],
    grid=lambda seed: [dict(kind=k, route=r, edit=e, name=n, nexports=x, e1="a") for k in KINDS for r in ROUTES for e in ("remove", "identity") for n in ("a", "_a") for x in (-1, 1)],
)
def verdict(kind: str, route: str, edit: str, name: str, nexports: int, e1: str) -> bool:
    """Breaking edit on a public object => reported at one of its public paths; private objects and compatible edits => silence."""
    from vlib.stubs import realize_value

    # the name becomes a dictionary key at once; case-splitting it here also avoids a CrossHair 0.0.110 internal error in str.endswith
    name = realize_value(name)
    old = build(kind, route, name, nexports, e1, edit, old=True)
    new = build(kind, route, name, nexports, e1, edit, old=False)
    breaks = list(find_breaking_changes(old, new))
    exports = None if nexports < 0 else (([e1] if nexports else []) + ["keep", "Holder", "Sub"])
    for b in breaks:
        for style in ExplanationStyle:
            if not isinstance(b.explain(style), str):
                return fail("explain() did not return a string")
    if edit in EDITS_COMPATIBLE:
        cover("silent-compatible")
        return not breaks or fail(f"compatible edit {edit} reported {[b.kind.name for b in breaks]}")
    public = ref_public(route, name, exports, kind)
    paths = {"direct": [f"pkg.{name}"], "reexport": [f"pkg.{name}"], "member": [f"pkg.Holder.{name}", f"pkg.Sub.{name}"], "inherited": [f"pkg.Sub.{name}"], "submodule": [f"pkg.util.{name}"]}[route]
    got = [b.obj.path for b in breaks]
    mine = [p for p in got if p in paths or any(p.startswith(q + "(") or p.startswith(q + ".") for q in paths)]
    if public:
        if not mine:
            return fail(f"{edit} of public {kind} {paths[0]} (route {route}, __all__={exports}) not reported; breakages at {got}")
        cover("reported-public")
        if route in ("member", "inherited") and f"pkg.Sub.{name}" in got:
            cover("reported-via-inheritance")
    else:
        if mine:
            return fail(f"{edit} of NON-public {kind} {paths[0]} (route {route}, __all__={exports}) reported: {[b.kind.name for b in breaks]}")
        cover("silent-private")
    # nothing else may be reported (the rest of the package is unchanged)
    others = [p for p in got if p not in mine]
    if others:
        return fail(f"unchanged objects reported: {others}")
    return True


# ================================================================================ robustness + exit code
@obligation(
    pid="C11", name="skips_and_exit_code", timeout=tiered(200, 600),
    shards=lambda: [(f"broken={b}", None, [dict(broken=b)]) for b in ("none", "unresolvable", "cyclic", "new-unresolvable", "new-cyclic", "old-unresolvable")],
    pre=lambda broken, remove_keep, name: len(name) == 1 and name in "ab",
    drives=[D._alias_incompatibilities, find_breaking_changes, __import__("_griffe.cli", fromlist=["check"]).check],
    bounds={"package": "pkg{keep(), alias `name` -> missing target / cyclic alias pair / nothing; asymmetric histories: a real function `name` on one side, an un-followable re-export of the same name on the other}", "edit": "remove keep() or not"}, value_symbolic=["remove_keep", "alias name"], selectors=["kind of broken re-export"],
    stubs=STUBS + ["cli.check: load_git/load/get_repo_root/get_latest_tag return the two in-memory versions (no git, no disk)"], must_cover=["exit-1", "exit-0", "asymmetric-history"],
    grid=lambda seed: [dict(broken=b, remove_keep=r, name="a") for b in ("none", "unresolvable", "cyclic", "new-unresolvable", "new-cyclic", "old-unresolvable") for r in (False, True)],
)
def skips_and_exit_code(broken: str, remove_keep: bool, name: str) -> bool:
    """Unresolvable/cyclic re-exports are skipped without aborting the comparison; `griffe check` exits non-zero exactly when something is reported."""
    import _griffe.cli as CLI

    def mk(old):
        col = ModulesCollection()
        pkg = Module("pkg", filepath=Path("/x/pkg/__init__.py"))
        col.set_member("pkg", pkg)
        if old or not remove_keep:
            pkg.set_member("keep", Function("keep", parameters=Parameters(), lineno=1, endlineno=1))
        pkg.exports = ["keep", name, "z"]
        # asymmetric histories: the name is a real function on one side and an un-followable re-export on the other
        how = broken
        if broken.startswith("new-"):
            how = broken[4:] if not old else "function"
        elif broken.startswith("old-"):
            how = broken[4:] if old else "function"
        if how == "function":
            pkg.set_member(name, Function(name, parameters=Parameters(), lineno=2, endlineno=2))
        elif how == "unresolvable":
            pkg.set_member(name, Alias(name, "missing.thing", lineno=2, endlineno=2))
        elif how == "cyclic":
            pkg.set_member(name, Alias(name, "pkg.z", lineno=2, endlineno=2))
            pkg.set_member("z", Alias("z", f"pkg.{name}", lineno=3, endlineno=3))
        return pkg

    old, new = mk(True), mk(False)
    breaks = list(find_breaking_changes(old, new))  # an exception here = the comparison was aborted
    want = ["pkg.keep"] if remove_keep else []
    got_paths = [b.obj.path for b in breaks]
    if "-" in broken:
        # what is reported for the name itself is not prescribed; the rest of the comparison must go on
        if [p for p in got_paths if p not in (f"pkg.{name}", "pkg.z")] != want:
            return fail(f"{broken}: breakages {[(b.kind.name, b.obj.path) for b in breaks]}; the removal of keep must {'be' if remove_keep else 'not be'} reported and nothing else besides pkg.{name}")
        cover("asymmetric-history")
        return True
    if got_paths != want:
        return fail(f"breakages {[(b.kind.name, b.obj.path) for b in breaks]} expected at {want}")
    saved = (CLI.load_git, CLI.load, CLI.get_repo_root, CLI.get_latest_tag)
    CLI.load_git = lambda *a, **k: mk(True)
    CLI.load = lambda *a, **k: mk(False)
    CLI.get_repo_root = lambda *a, **k: "/x"
    CLI.get_latest_tag = lambda *a, **k: "v0"
    try:
        rc = CLI.check("pkg", against="v0")
    finally:
        CLI.load_git, CLI.load, CLI.get_repo_root, CLI.get_latest_tag = saved
    cover("exit-1" if rc else "exit-0")
    return (rc != 0) == bool(want) or fail(f"check() returned {rc} with {len(want)} breakages")


# ================================================================================ `griffe check` end to end on a real repository
LAYOUTS_R = ["flat", "src"]
EDITS_R = ["none", "compatible", "breaking"]


def _check_case(layout, edit, absolute):
    """A real git repository in a scratch directory (outside /repo and /verif): package tagged v1, working tree edited, the real
    cli.check() (real load_git, real load) run from the repository root with `-s <search path>` as users give it."""
    import contextlib
    import io
    import os
    import shutil
    import subprocess
    import tempfile

    import _griffe.cli as CLI

    d = tempfile.mkdtemp(prefix="verif_c11_")
    env = dict(os.environ, GIT_AUTHOR_NAME="t", GIT_AUTHOR_EMAIL="t@t", GIT_COMMITTER_NAME="t", GIT_COMMITTER_EMAIL="t@t", HOME=d)

    def git(*a):
        return subprocess.run(["git", "-C", d, *a], capture_output=True, text=True, env=env)

    try:
        git("init", "-q", "-b", "main")
        base = os.path.join(d, "src") if layout == "src" else d
        os.makedirs(os.path.join(base, "pkgr"))
        mod = os.path.join(base, "pkgr", "__init__.py")
        open(mod, "w").write("LIMIT = 10\n\n\ndef keep(a):\n    return a\n\n\ndef gone():\n    return 0\n")
        git("add", "-A")
        git("commit", "-q", "-m", "one")
        git("tag", "v1")
        if edit == "compatible":
            open(mod, "w").write("LIMIT = 10\n\n\ndef keep(a, *, extra=None):\n    return a\n\n\ndef gone():\n    return 0\n\n\ndef added():\n    return 1\n")
        elif edit == "breaking":
            open(mod, "w").write("LIMIT = 20\n\n\ndef keep(a):\n    return a\n")
        sp = ("src" if layout == "src" else ".")
        if absolute:
            sp = os.path.join(d, sp) if sp != "." else d
        cwd = os.getcwd()
        os.chdir(d)
        out = io.StringIO()
        try:
            with contextlib.redirect_stdout(out), contextlib.redirect_stderr(out):
                rc = CLI.check("pkgr", against="v1", search_paths=[sp])
        finally:
            os.chdir(cwd)
        want_nonzero = edit == "breaking"
        if (rc != 0) != want_nonzero:
            return f"layout={layout} search path {sp!r} edit={edit}: check() returned {rc}; the working tree {'removes gone() and changes LIMIT' if want_nonzero else 'is compatible with v1'}; output: {out.getvalue()[-300:]!r}"
        left = git("worktree", "list").stdout.strip().splitlines()
        if len(left) != 1 or "griffe-" in git("branch", "--list").stdout:
            return f"check left worktrees/branches behind: {left} {git('branch', '--list').stdout!r}"
        return None
    finally:
        shutil.rmtree(d, ignore_errors=True)


@obligation(
    pid="C11", name="check_real_repository", timeout=tiered(200, 600), path_timeout=120.0,
    shards=lambda: [(f"layout={lay}", None, [dict(layout=lay)]) for lay in LAYOUTS_R],
    pre=lambda layout, edit, absolute: 0 <= edit <= 2 and not absolute,  # load_git documents search paths as relative to the repository root: absolute ones are outside the claim
    drives=[__import__("_griffe.cli", fromlist=["check"]).check, __import__("_griffe.loader", fromlist=["load_git"]).load_git],
    bounds={"repository": "package pkgr{LIMIT, keep(a), gone()} tagged v1, flat or src layout", "working-tree edit": EDITS_R, "search path": "relative to the repository root (as in `griffe check pkgr -a v1 -s src`), which is what load_git documents"},
    value_symbolic=["edit", "absolute"], selectors=["layout (driver-bound)"],
    stubs=["none: real git, real files in a scratch directory, the real cli.check -> load_git -> load; the solver's choices are realised before the run"],
    assumptions=["case analysis: nothing symbolic survives the git / file-system boundary"],
    must_cover=["exit-nonzero-on-breaking", "exit-zero-on-compatible"],
    grid=lambda seed: [dict(layout=lay, edit=e, absolute=False) for lay in LAYOUTS_R for e in (0, 2)],
)
def check_real_repository(layout: str, edit: int, absolute: bool) -> bool:
    """`griffe check` compares the tagged version with the working tree and exits non-zero exactly when something breaking is reported."""
    from vlib.stubs import realize_value

    edit, absolute = realize_value(edit), realize_value(absolute)
    from harness.C08_json import _native

    err = _native(_check_case, layout, EDITS_R[edit], absolute)
    if err:
        return fail(err)
    cover("exit-nonzero-on-breaking" if edit == 2 else "exit-zero-on-compatible")
    return True
