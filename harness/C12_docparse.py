"""C12 — docstring parsers are total and terminating on arbitrary text (engine X).

Two input families per style:
  chars : the whole text is one symbolic string over the characters the parsers branch on;
  lines : K lines, each `" " * indent_i + BODY[kind_i]` with a *symbolic indentation* (the block readers compare
          indentation widths) and a body selected from a vocabulary of the line shapes the parser recognises.
All parser options are symbolic booleans. Regexes are applied by CPython's `re` on the realised line
(vlib.stubs.RealizingPattern): CrossHair's symbolic regex model was measured to be wrong on `(.*)?X` shapes.
"""
from __future__ import annotations

from pathlib import Path

import _griffe.docstrings.google as G
import _griffe.docstrings.numpy as NP
import _griffe.docstrings.sphinx as SP
import _griffe.docstrings.utils as DU
from _griffe.agents.visitor import visit
from _griffe.docstrings.models import DocstringSection, DocstringSectionText
from _griffe.models import Docstring
from vlib.ob import TIER, cover, fail, obligation, tiered, prop
from vlib.stubs import realize_regexes, silence_logging

STUBS = silence_logging()
for _m in (G, NP, SP):
    if hasattr(_m, "docstring_warning"):
        _m.docstring_warning = lambda *a, **k: None
STUBS.append("docstring_warning -> no-op (message formatting is not the subject)")
STUBS += ["regex on realised subject string: " + x for x in realize_regexes(G) + realize_regexes(NP) + realize_regexes(DU)]

_SRC = '''
def f(a: int, b=0, *c, d: str = "", **e) -> int: ...
def g(a, b):
    yield 1
class C:
    def __init__(self, a: int, b=0): ...
    @property
    def p(self) -> int: ...
x: int = 0
def t(a) -> tuple[int, str]: ...
def gen2(a: int, b=0, *c, d: str = "", **e) -> Generator[int, str]: ...
def t1(a) -> tuple[int]: ...
def g3(a) -> Generator[tuple[int, str], tuple[int], tuple[int]]: ...
def it1(a) -> Iterator[tuple[int]]: ...
'''
_MOD = visit("m", Path("m.py"), _SRC)
PARENTS = [None, _MOD, _MOD["C"], _MOD["gen2"], _MOD["C.__init__"], _MOD["C.p"], _MOD["g"], _MOD["x"], _MOD["t"], _MOD["f"], _MOD["t1"], _MOD["g3"], _MOD["it1"]]
PARENT_NAMES = ["none", "module", "class", "function (annotated parameters, returns a 2-element Generator[...])", "__init__", "property", "generator-function", "attribute", "function -> tuple[int, str]", "function -> int",
                "function -> tuple[int]", "function -> Generator[tuple[int, str], tuple[int], tuple[int]]", "function -> Iterator[tuple[int]]"]


class Fuel(Exception):
    pass


class FuelList(list):
    """`docstring.lines` stand-in that counts indexing: a parser loop that stops advancing exhausts the fuel."""

    def __init__(self, items, counter):
        super().__init__(items)
        self._counter = counter

    def __getitem__(self, i):
        self._counter[0] += 1
        if self._counter[0] > 3000:
            raise Fuel("parser indexed docstring.lines more than 3000 times: not terminating")
        return list.__getitem__(self, i)


class FDoc(Docstring):
    """Docstring whose value/lines are supplied directly (cleaning by inspect.cleandoc is stdlib, not under test)."""

    def __init__(self, value, parent, lines=None):
        self.value = value
        self.lineno = 1
        self.endlineno = None
        self.parent = parent
        self.parser = None
        self.parser_options = {}
        self._counter = [0]
        self._lines = lines

    @property
    def lines(self):
        base = self._lines if self._lines is not None else prop(Docstring, "lines")(self)
        return FuelList(base, self._counter)


def _snapshot(parent):
    if parent is None:
        return None
    snap = [parent.name, sorted(parent.labels), list(parent.members.keys()), parent.docstring is None]
    if parent.is_function:
        snap.append([(p.name, str(p.annotation), str(p.default), p.kind) for p in parent.parameters])
        snap.append(str(parent.returns))
    return snap


def _well_formed(secs, d, value_before, parent, snap) -> bool:
    if not isinstance(secs, list):
        return fail("result is not a list")
    for s in secs:
        if not isinstance(s, DocstringSection):
            return fail("non-section in result")
        dd = s.as_dict()
        if "kind" not in dd or "value" not in dd:
            return fail("section.as_dict() lacks kind/value")
        v = s.value
        if isinstance(v, list):
            for item in v:
                if hasattr(item, "as_dict"):
                    item.as_dict()
    if d.value != value_before:
        return fail("docstring.value modified")
    if d.parent is not parent or _snapshot(parent) != snap:
        return fail("parent modified")
    return True


def _norm(text):
    return "\n".join("" if not line.strip() else line for line in text.split("\n"))


def _parse(style, d, o1, o2, o3, o4, o5, o6, o7, o8):
    if style == "google":
        return G.parse_google(d, ignore_init_summary=o1, trim_doctest_flags=o2, returns_multiple_items=o3, returns_named_value=o4,
                              returns_type_in_property_summary=o5, receives_multiple_items=o6, receives_named_value=o7, warn_unknown_params=o8)
    if style == "numpy":
        return NP.parse_numpy(d, ignore_init_summary=o1, trim_doctest_flags=o2, warn_unknown_params=o8)
    return SP.parse_sphinx(d, warn_unknown_params=o8)


# ------------------------------------------------------------------------------------------ chars family
ALPHA = {"google": "a:\n -(`>", "numpy": "a:\n -`>", "sphinx": "a:\n p`"}
NCHARS = {"google": tiered(2, 3), "numpy": tiered(3, 4), "sphinx": tiered(4, 5)}
CHAR_PARENTS = tiered((0, 3), (0, 3, 5, 9))


def _chars_pre(style):
    al, n = ALPHA[style], NCHARS[style]

    def pre(text, parent, o1, o2, o3, o4, o5, o6, o7, o8):
        if not (len(text) <= n and all(c in al for c in text)):
            return False
        if not (0 <= parent < len(PARENTS)):
            return False
        if style != "google" and (o3 or o4 or o5 or o6 or o7):
            return False  # options the parser does not have are pinned (no duplicate paths)
        if style == "sphinx" and (o1 or o2):
            return False
        if parent not in CHAR_PARENTS:
            return False
        return True

    return pre


def _chars_shards(style):
    al = ALPHA[style]

    def mk(c):
        return lambda **kw: len(kw["text"]) > 0 and kw["text"][0] == c

    return lambda: [("empty", lambda **kw: len(kw["text"]) == 0)] + [(f"first={c!r}", mk(c)) for c in al]


def _make_chars(style, parser_fn):
    @obligation(
        pid="C12", name=f"{style}_chars", pre=_chars_pre(style), shards=_chars_shards(style), timeout=tiered(240, 1500), path_timeout=60.0,
        drives=[parser_fn, prop(Docstring, "lines")],
        bounds={"text": f"every string of length <= {NCHARS[style]} over {ALPHA[style]!r}", "options": "all boolean parser options symbolic", "parents": [PARENT_NAMES[i] for i in CHAR_PARENTS]},
        value_symbolic=["text (whole docstring value)", "the parser's boolean options"], selectors=["parent object kind"],
        stubs=STUBS + ["Docstring value assigned directly (inspect.cleandoc not under test)"],
        must_cover=[f"{style}:text-section"],
        grid=lambda seed: [dict(text=t, parent=p, o1=False, o2=True, o3=(style == "google"), o4=(style == "google"), o5=False, o6=(style == "google"), o7=(style == "google"), o8=True)
                           for t in ["", "a", "a:\n", ":a", " a"] for p in (0, 3)],
    )
    def chars(text: str, parent: int, o1: bool, o2: bool, o3: bool, o4: bool, o5: bool, o6: bool, o7: bool, o8: bool) -> bool:
        par = PARENTS[parent]
        snap = _snapshot(par)
        d = FDoc(text, par)
        secs = _parse(style, d, o1, o2, o3, o4, o5, o6, o7, o8)
        for s in secs:
            if isinstance(s, DocstringSectionText):
                cover(f"{style}:text-section")
            else:
                cover(f"{style}:{s.kind.value}")
        return _well_formed(secs, d, text, par, snap)

    chars.__name__ = f"{style}_chars"
    return chars


google_chars = _make_chars("google", G.parse_google)
numpy_chars = _make_chars("numpy", NP.parse_numpy)
sphinx_chars = _make_chars("sphinx", SP.parse_sphinx)


# ------------------------------------------------------------------------------------------ plain text
def _make_plain(style, parser_fn):
    n = tiered(3 if style == "google" else 4, 5)

    @obligation(
        pid="C12", name=f"{style}_plain", timeout=tiered(240, 1200), path_timeout=60.0,
        pre=lambda text, o1, o2, o8: len(text) <= n and all(c in "ab \n" for c in text) and len(text) > 0 and text[0] in "ab" and text[-1] in "ab",
        drives=[parser_fn],
        bounds={"text": f"every string of length <= {n} over 'ab', space and newline that starts and ends with a letter (no section syntax)"},
        value_symbolic=["text", "ignore_init_summary, trim_doctest_flags, warn_unknown_params"],
        stubs=STUBS + ["Docstring value assigned directly (inspect.cleandoc not under test)"],
        grid=lambda seed: [dict(text=t, o1=False, o2=True, o8=True) for t in ["a", "a\nb", "a\n\nb", "a \n b"]],
    )
    def plain(text: str, o1: bool, o2: bool, o8: bool) -> bool:
        d = FDoc(text, None)
        secs = _parse(style, d, o1, o2, True, True, False, True, True, o8)
        if len(secs) != 1 or not isinstance(secs[0], DocstringSectionText):
            return fail("text without section syntax did not come back as a single text section")
        if _norm(secs[0].value) != _norm(text):
            return fail("text section differs from the docstring value beyond whitespace on blank lines")
        return True

    plain.__name__ = f"{style}_plain"
    return plain


google_plain = _make_plain("google", G.parse_google)
numpy_plain = _make_plain("numpy", NP.parse_numpy)
sphinx_plain = _make_plain("sphinx", SP.parse_sphinx)


# ------------------------------------------------------------------------------------------ lines family
VOCAB = {
    "google": ["", "text", "Args:", "Returns:", "Yields:", "Raises:", "Note:", "Note: title", "Examples:", "Attributes:", "Receives:",
               "x (int): d", "x: d", "int: d", ">>> a", "```", "Other Parameters:", "Warns:", "Functions:", "Classes:", "Modules:", "Deprecated:", "f(a): d", "1.0: d"],
    "numpy": ["", "text", "Parameters", "----------", "Returns", "-------", "Yields", "Raises", "Attributes", "Examples", "x : int", "x", "int", "d",
              ">>> a", "```", "Other Parameters", "Receives", "Warns", "Deprecated", "x : int, default 0", ".. note::", "Functions", "f(a)", "Classes", "Modules"],
    "sphinx": ["", "text", ":param x: d", ":param int x: d", ":type x: int", ":returns: d", ":rtype: int", ":raises E: d", ":var v: d", ":vartype v: int", ":param x:", ":returns:", ":", ":param"],
}
MAXIND = tiered(4, 4)


def _idx(style, bodies):
    return [VOCAB[style].index(b) for b in bodies]


# (obligation suffix, K, body subset, parents, tiers)
LINE_CONFIGS = {
    "google": [
        ("lines", 2, tiered(_idx("google", ["", "text", "Args:", "Returns:", "Yields:", "Raises:", "Note:", "Note: title", "Examples:", "x (int): d", "x: d", "int: d", ">>> a", "```"]), list(range(len(VOCAB["google"])))), tiered((0, 3), (0, 3, 5, 9))),
        ("lines3", 3, _idx("google", ["", "text", "Args:", "Returns:", "Note: title", "x: d", "int: d", "```", "Examples:"]), (0, 3)) if TIER == "thorough" else None,
        ("lines4", 4, _idx("google", ["", "text", "Returns:", "Note: title", "```", "x: d"]), (0, 8)) if TIER == "thorough" else None,
    ],
    "numpy": [
        ("lines", 2, tiered(_idx("numpy", ["", "text", "Parameters", "----------", "Returns", "-------", "Raises", "Examples", "x : int", "x", "int", "d", ">>> a", "```", "x : int, default 0", ".. note::"]), list(range(len(VOCAB["numpy"])))), tiered((0, 3), (0, 3, 5))),
        ("lines3", 3, _idx("numpy", ["", "Parameters", "----------", "Returns", "-------", "x : int", "d", "Examples", ">>> a"]), (0, 3)) if TIER == "thorough" else None,
        ("lines4", 4, _idx("numpy", ["", "Returns", "-------", "int", "d"]), (0,)) if TIER == "thorough" else None,
    ],
    "sphinx": [
        ("lines", 2, list(range(len(VOCAB["sphinx"]))), tiered((0, 3), (0, 3, 5))),
        ("lines3", 3, _idx("sphinx", ["", "text", ":param x: d", ":param int x: d", ":type x: int", ":returns: d", ":rtype: int", ":raises E: d", ":param x:"]), (0, 3)) if TIER == "thorough" else None,
    ],
}


def _lines_pre(style, k, allowed, parents):
    voc = VOCAB[style]

    def pre(nlines, k1, k2, k3, k4, i1, i2, i3, i4, parent, o1, o2, o3, o4, o5, o6, o7, o8):
        if not (1 <= nlines <= k):
            return False
        ks, inds = (k1, k2, k3, k4), (i1, i2, i3, i4)
        for j in range(4):
            if j < nlines:
                if ks[j] not in allowed or not (0 <= inds[j] <= MAXIND):
                    return False
            elif ks[j] != 0 or inds[j] != 0:
                return False
        # Docstring values never start with whitespace/blank nor end with blank lines (cleandoc + rstrip)
        if i1 != 0 or voc[k1] == "" or voc[ks[nlines - 1]] == "":
            return False
        if parent not in parents:
            return False
        if style != "google" and (o3 or o4 or o5 or o6 or o7):
            return False
        if style == "sphinx" and (o1 or o2):
            return False
        return True

    return pre


def _lines_shards(style, k, allowed, parents):
    import itertools

    voc = VOCAB[style]

    def cases_for(a, par):
        out = []
        for n in range(1, k + 1):
            for rest in itertools.product(allowed, repeat=n - 1):
                ks = [a, *rest] + [0] * (4 - n)
                if voc[ks[n - 1]] == "":
                    continue  # values never end with a blank line
                out.append(dict(nlines=n, k1=ks[0], k2=ks[1], k3=ks[2], k4=ks[3], parent=par))
        return out

    return lambda: [(f"first-line={voc[a]!r},parent={PARENT_NAMES[par]}", None, cases_for(a, par)) for a in allowed if voc[a] != "" for par in parents]


def _make_lines(style, parser_fn, suffix, k, allowed, parents):
    @obligation(
        pid="C12", name=f"{style}_{suffix}", pre=_lines_pre(style, k, allowed, parents), shards=_lines_shards(style, k, allowed, parents), timeout=tiered(300, 2400), path_timeout=60.0,
        drives=[parser_fn] + ([G._read_block, G._read_block_items, G._read_block_items_maybe, G._get_name_annotation_description] if style == "google" else
                              [NP._read_block, NP._read_block_items] if style == "numpy" else []),
        bounds={"lines": f"1..{k}", "indentation": f"0..{MAXIND} spaces per line", "line bodies": [VOCAB[style][i] for i in allowed],
                "options": "all boolean parser options symbolic", "parents": [PARENT_NAMES[i] for i in parents]},
        value_symbolic=["the parser's boolean options", "indentation width of every line (an int the engine case-splits when the line is built: `' ' * i` realises i)"],
        selectors=["number of lines, body shape of each line, parent object kind: bound concretely by the driver, one symbolic analysis per combination"],
        stubs=STUBS + ["docstring.lines supplied pre-split (value = join of the same lines)"],
        grid=lambda seed: [dict(nlines=2, k1=allowed[1], k2=allowed[2], k3=0, k4=0, i1=0, i2=4, i3=0, i4=0, parent=p, o1=False, o2=True, o3=(style == "google"), o4=(style == "google"), o5=False,
                                o6=(style == "google"), o7=(style == "google"), o8=True) for p in parents[:2]],
    )
    def lines_(nlines: int, k1: int, k2: int, k3: int, k4: int, i1: int, i2: int, i3: int, i4: int, parent: int,
               o1: bool, o2: bool, o3: bool, o4: bool, o5: bool, o6: bool, o7: bool, o8: bool) -> bool:
        voc = VOCAB[style]
        ks, inds = (k1, k2, k3, k4), (i1, i2, i3, i4)
        lines = [(" " * inds[j] + voc[ks[j]]) if voc[ks[j]] else "" for j in range(nlines)]
        par = PARENTS[parent]
        snap = _snapshot(par)
        value = "\n".join(lines)
        d = FDoc(value, par, lines=lines)
        secs = _parse(style, d, o1, o2, o3, o4, o5, o6, o7, o8)
        for s in secs:
            cover(f"{style}:{s.kind.value}")
        return _well_formed(secs, d, value, par, snap)

    lines_.__name__ = f"{style}_{suffix}"
    return lines_


for _style, _fn in (("google", G.parse_google), ("numpy", NP.parse_numpy), ("sphinx", SP.parse_sphinx)):
    for _cfg in LINE_CONFIGS[_style]:
        if _cfg is not None:
            _make_lines(_style, _fn, *_cfg)


# ------------------------------------------------------------------------------------------ items family
# A returns / yields / receives section with 1..3 items, each named or not, typed or not, under parents whose return annotation is a
# tuple (or a Generator / Iterator of tuples) with FEWER or more elements than there are items: the signature fallback indexes the tuple.
ITEM_HEADS = {"google": ["Returns:", "Yields:", "Receives:"], "numpy": ["Returns", "Yields", "Receives"]}
ITEM_BODIES = {"google": ["{n}: d", "(int): d", "{n} (int): d", "d"], "numpy": ["{n} :", "int", "{n} : int", "{n}"]}
ITEM_PARENTS = (8, 10, 11, 12, 3, 9)


def _make_items(style, parser_fn):
    @obligation(
        pid="C12", name=f"{style}_items", timeout=tiered(240, 900), path_timeout=60.0,
        shards=lambda: [(f"section={h!r},parent={PARENT_NAMES[p]}", None, [dict(head=hi, parent=p)]) for hi, h in enumerate(ITEM_HEADS[style]) for p in ITEM_PARENTS],
        pre=lambda head, parent, n, b1, b2, b3, oa, ob: 1 <= n <= 3 and all(0 <= b <= 3 for b in (b1, b2, b3)) and (n >= 2 or b2 == 0) and (n >= 3 or b3 == 0) and (style == "google" or not (oa or ob)),
        drives=[parser_fn] + ([G._read_returns_section, G._read_yields_section, G._read_receives_section, G._annotation_from_parent] if style == "google" else [NP._read_returns_section, NP._read_yields_section, NP._read_receives_section]),
        bounds={"section": ITEM_HEADS[style], "items": "1..3, each one of " + str(ITEM_BODIES[style]) + " (names a, b, c)", "parents": [PARENT_NAMES[i] for i in ITEM_PARENTS],
                "options": "returns_/receives_multiple_items and _named_value symbolic (google)"},
        value_symbolic=["number of items", "form of every item (named / typed / both / bare)", "the two options that govern the section"], selectors=["section, parent (driver-bound)"],
        stubs=STUBS + ["docstring.lines supplied pre-split"], must_cover=[f"{style}:items-parsed"],
        grid=lambda seed: [dict(head=h, parent=p, n=n, b1=0, b2=0, b3=0, oa=(style == "google"), ob=(style == "google")) for h in (0, 1) for p in (8, 10) for n in (1, 2)],
    )
    def items(head: int, parent: int, n: int, b1: int, b2: int, b3: int, oa: bool, ob: bool) -> bool:
        """A section whose items outnumber (or not) the elements of the tuple in the signature parses without raising."""
        bodies = (b1, b2, b3)
        lines = ["Summary.", "", ITEM_HEADS[style][head]]
        if style == "numpy":
            lines.append("-" * len(ITEM_HEADS[style][head]))
        for j in range(n):
            body = ITEM_BODIES[style][bodies[j]].format(n="abc"[j])
            lines.append(("    " if style == "google" else "") + body)
            if style == "numpy":
                lines.append("    d")
        par = PARENTS[parent]
        snap = _snapshot(par)
        value = "\n".join(lines)
        d = FDoc(value, par, lines=lines)
        if head == 2:
            secs = _parse(style, d, False, True, True, True, False, oa, ob, True)
        else:
            secs = _parse(style, d, False, True, oa, ob, False, True, True, True)
        if any(sec.kind.value in ("returns", "yields", "receives") for sec in secs):
            cover(f"{style}:items-parsed")
        return _well_formed(secs, d, value, par, snap)

    items.__name__ = f"{style}_items"
    return items


_make_items("google", G.parse_google)
_make_items("numpy", NP.parse_numpy)


# ------------------------------------------------------------------------------------------ trailing family (real Docstring constructor)
# The value goes through the real Docstring.__init__ (cleaning included): a body that ends with a section header followed by a
# solver-chosen tail of blanks / newlines / tabs / form feeds - what is left of the closing quotes' line in real source files.
TRAIL_BODIES = {
    "google": ["Summary.", "Summary.\n\nArgs:", "Summary.\n\nReturns:", "Summary.\n\nNote:", "Summary.\n\nExamples:", "Summary.\n\n    Args:\n        x: d"],
    "numpy": ["Summary.", "Summary.\n\nParameters\n----------", "Summary.\n\nReturns\n-------", "Summary.\n\nExamples\n--------", "Summary.\n\nDeprecated\n----------", "    Summary.\n\n    Raises\n    ------"],
    "sphinx": ["Summary.", "Summary.\n\n:param x: d", "Summary.\n\n:returns:", "Summary.\n\n:param x:", "    Summary.\n\n    :type x: int"],
}
TRAIL_ALPHA = " \n\t\x0c"


class RealDoc(Docstring):
    """The real Docstring (real __init__, real cleaning); only `lines` is wrapped to count indexing (termination fuel)."""

    @property
    def lines(self):
        if not hasattr(self, "_counter"):
            self._counter = [0]
        return FuelList(prop(Docstring, "lines")(self), self._counter)


def _make_trailing(style, parser_fn):
    n = tiered(3, 4)

    @obligation(
        pid="C12", name=f"{style}_trailing", timeout=tiered(240, 900), path_timeout=60.0,
        shards=lambda: [(f"body={b!r}", None, [dict(body=i, parent=p) for p in (0, 3)]) for i, b in enumerate(TRAIL_BODIES[style])],
        pre=lambda body, parent, tail: len(tail) <= n and all(c in TRAIL_ALPHA for c in tail),
        drives=[parser_fn, Docstring.__init__, prop(Docstring, "lines")],
        bounds={"body": TRAIL_BODIES[style], "tail": f"every string of length <= {n} over blank, newline, tab, form feed appended after a newline", "parents": [PARENT_NAMES[0], PARENT_NAMES[3]]},
        value_symbolic=["tail (realised before the constructor runs: inspect.cleandoc is stdlib code)"], selectors=["body, parent (driver-bound)"],
        stubs=STUBS, must_cover=[f"{style}:trailing-parsed"],
        grid=lambda seed: [dict(body=i, parent=0, tail=t) for i in range(len(TRAIL_BODIES[style])) for t in ("", "    ", "\n    ", "\x0c")],
    )
    def trailing(body: int, parent: int, tail: str) -> bool:
        """Whatever blank residue follows the last line, constructing and parsing the docstring neither raises nor loops."""
        from vlib.stubs import realize_value
        from harness.C08_json import _native

        tail = realize_value(tail)

        def run():
            par = PARENTS[parent]
            snap = _snapshot(par)
            d = RealDoc(TRAIL_BODIES[style][body] + "\n" + tail, parent=par)
            value = d.value
            secs = _parse(style, d, False, True, style == "google", style == "google", False, style == "google", style == "google", True)
            cover(f"{style}:trailing-parsed")
            return _well_formed(secs, d, value, par, snap)

        return _native(run)

    trailing.__name__ = f"{style}_trailing"
    return trailing


_make_trailing("google", G.parse_google)
_make_trailing("numpy", NP.parse_numpy)
_make_trailing("sphinx", SP.parse_sphinx)
