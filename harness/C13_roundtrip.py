"""C13 — well-formed docstrings parse back to the structure that was written (engine X).

A section list (kinds and item counts bound by the driver from a catalogue of layouts) is rendered in the well-formed
syntax of each style with symbolic holes (item names, descriptions - which may contain a colon or a second line -, the
admonition title) and parsed by the real parser; the parsed sections must equal the generating structure (kinds in written
order for Google and Numpy, names, annotations, defaults from the signature, descriptions, titles; nothing leaks across
sections). The docstring is handed over pre-split (each line a concrete template with symbolic holes).
"""
from __future__ import annotations

import _griffe.docstrings.google as G
import _griffe.docstrings.numpy as NP
import _griffe.docstrings.sphinx as SP
import _griffe.docstrings.utils as DU
from _griffe.docstrings.models import DocstringSectionText
from _griffe.enumerations import ParameterKind as PK
from _griffe.models import Docstring, Function, Module, Parameter, Parameters
import ast

from _griffe.expressions import get_expression
from vlib.ob import TIER, cover, fail, obligation, tiered
from vlib.stubs import realize_regexes, silence_logging

STUBS = silence_logging()
for _m in (G, NP, SP):
    if hasattr(_m, "docstring_warning"):
        _m.docstring_warning = lambda *a, **k: None
STUBS.append("docstring_warning -> no-op")
STUBS += ["regex on realised subject string: " + x for x in realize_regexes(G) + realize_regexes(NP) + realize_regexes(DU)]


class PreSplit(Docstring):
    def __init__(self, lines, parent):
        self._lines = lines
        self.value = "\n".join(lines)
        self.lineno = 1
        self.endlineno = None
        self.parent = parent
        self.parser = None
        self.parser_options = {}

    @property
    def lines(self):
        return list(self._lines)


# layouts: sequences of (kind, number of items, typed?) ; 'text' = free paragraph, 'note' = admonition
LAYOUTS = [
    [("parameters", 2, True)],
    [("parameters", 2, False), ("returns", 1, True)],
    [("parameters", 1, True), ("raises", 1, False), ("returns", 1, True)],
    [("returns", 1, True), ("parameters", 1, False)],
    [("parameters", 1, False), ("text", 0, False), ("raises", 2, False)],
    [("note", 0, False), ("parameters", 1, True)],
    [("other parameters", 1, True), ("warns", 1, False)],
    [("attributes", 2, True), ("yields", 1, True)],
    [("parameters", 1, True), ("note", 0, False), ("returns", 1, True)],
    [("raises", 1, False), ("attributes", 1, False), ("text", 0, False)],
]
# Google only: named return/yield items WITHOUT a type ("sig"): the annotation comes from the parent's return annotation
# (whole annotation for a single item, the i-th tuple element for several items, the yield/return slot of a Generator)
GOOGLE_FENCE_LAYOUTS = [
    [("fence", 0, False), ("parameters", 1, True), ("returns", 1, True)],
    [("parameters", 1, False), ("fence", 0, False), ("raises", 1, False)],
]
GOOGLE_SIG_LAYOUTS = [
    ([("returns", 1, "sig")], "tuple[int, str]"),
    ([("returns", 2, "sig")], "tuple[int, str]"),
    ([("yields", 1, "sig"), ("returns", 1, "sig")], "Generator[int, str, bool]"),
    ([("parameters", 1, False), ("returns", 1, "sig")], "bool"),
    ([("yields", 1, "sig")], "Iterator[int]"),
]
PARENT_RETURNS = {len(LAYOUTS) + i: ret for i, (_, ret) in enumerate(GOOGLE_SIG_LAYOUTS)}


def _expected_from_signature(ret, kind, n, idx):
    if ret == "bool":
        return "bool"
    if ret.startswith("tuple["):
        return ret if n == 1 else ["int", "str"][idx]
    if ret.startswith("Generator["):
        return "int" if kind == "yields" else "bool"
    if ret.startswith("Iterator["):
        return "int" if kind == "yields" else None
    raise KeyError(ret)


SPHINX_LAYOUTS = [
    [("parameters", 2, True)],
    [("parameters", 1, False), ("returns", 1, True)],
    [("parameters", 1, True), ("raises", 1, False), ("returns", 1, False)],
    [("parameters", 2, False), ("raises", 2, False)],
    [("attributes", 1, True), ("returns", 1, True)],
]


def _desc(d, second):
    return [d] + (["more"] if second else [])


def render_google(layout, names, descs, second, title):
    lines, want = ["Summary."], [("text", "Summary.")]
    it = 0
    for kind, n, typed in layout:
        lines.append("")
        if kind == "text":
            lines.append("Free text.")
            want.append(("text", "Free text."))
            continue
        if kind == "note":
            lines += ["Note: " + title if title else "Note:", "    Body text."]
            want.append(("admonition", "note", title if title else "Note", "Body text."))
            continue
        if kind == "fence":
            # free text holding an INDENTED fenced code block (a block nested under a list item): the sections written after it must still be found
            block = ["- item:", "", "    ```", "    Args:", "    ```"]
            lines += block
            if want[-1][0] == "text":  # consecutive free paragraphs form one text section
                want[-1] = ("text", want[-1][1] + "\n\n" + "\n".join(block))
            else:
                want.append(("text", "\n".join(block)))
            continue
        lines.append({"parameters": "Args:", "other parameters": "Other Parameters:", "returns": "Returns:", "yields": "Yields:", "raises": "Raises:", "warns": "Warns:", "attributes": "Attributes:"}[kind])
        items = []
        for _ in range(n):
            nm, ds = names[it % 2], descs[it % 2]
            it += 1
            dl = _desc(ds, second)
            if kind in ("returns", "yields") and typed == "sig":
                # a named item without a type: the annotation is taken from the signature
                lines.append("    r" + nm + ": " + dl[0])
                items.append(("r" + nm, ("FROMSIG", kind, n, len(items)), "\n".join(dl)))
            elif kind in ("returns", "yields"):
                # default options: the type of a returned value is written in parentheses (always typed here: an untyped
                # description containing a colon would be read as `name: description`)
                lines.append("    (int): " + dl[0])
                items.append(("", "int", "\n".join(dl)))
            elif kind in ("raises", "warns"):
                lines.append("    E" + nm + ": " + dl[0])
                items.append(("E" + nm, "E" + nm, "\n".join(dl)))
            else:
                lines.append("    " + nm + (" (int)" if typed else "") + ": " + dl[0])
                items.append((nm, "int" if typed else ("SIG" if kind != "attributes" else None), "\n".join(dl)))
            lines += ["        " + x for x in dl[1:]]
        want.append((kind, items))
    return lines, want


def render_numpy(layout, names, descs, second, title):
    lines, want = ["Summary."], [("text", "Summary.")]
    it = 0
    for kind, n, typed in layout:
        lines.append("")
        if kind == "text":
            lines.append("Free text.")
            want.append(("text", "Free text."))
            continue
        if kind == "note":
            lines += ["Note", "----", "Body text."]  # numpydoc-style admonition: an unknown section title with its underline
            want.append(("admonition", "note", "Note", "Body text."))
            continue
        head = {"parameters": "Parameters", "other parameters": "Other Parameters", "returns": "Returns", "yields": "Yields", "raises": "Raises", "warns": "Warns", "attributes": "Attributes"}[kind]
        lines += [head, "-" * len(head)]
        items = []
        for _ in range(n):
            nm, ds = names[it % 2], descs[it % 2]
            it += 1
            dl = _desc(ds, second)
            if kind in ("returns", "yields"):
                lines.append("int" if typed else "r" + nm + " : int")
                items.append(("" if typed else "r" + nm, "int", "\n".join(dl)))
            elif kind in ("raises", "warns"):
                lines.append("E" + nm)
                items.append(("E" + nm, "E" + nm, "\n".join(dl)))
            else:
                lines.append(nm + (" : int" if typed else ""))
                items.append((nm, "int" if typed else ("SIG" if kind != "attributes" else None), "\n".join(dl)))
            lines += ["    " + x for x in dl]
        want.append((kind, items))
    return lines, want


def render_sphinx(layout, names, descs, second, title):
    lines = ["Summary.", ""]
    params, raises, rets, attrs = [], [], [], []
    it = 0
    cont = "    :r:`x` m"  # a continuation line that starts with an inline role (a colon), indented under its field

    def field(line, ds):
        lines.append(line)
        if second:
            lines.append(cont)
            return ds + " " + cont.strip()
        return ds

    for kind, n, typed in layout:
        for _ in range(n):
            nm, ds = names[it % 2], descs[it % 2]
            it += 1
            if kind == "parameters":
                ds = field(f":param {nm}: {ds}", ds)
                if typed:
                    lines.append(f":type {nm}: int")
                params.append((nm, "int" if typed else "SIG", ds))
            elif kind == "raises":
                ds = field(f":raises E{nm}: {ds}", ds)
                raises.append(("E" + nm, "E" + nm, ds))
            elif kind == "returns":
                ds = field(f":returns: {ds}", ds)
                if typed:
                    lines.append(":rtype: int")
                rets.append(("", "int" if typed else "RET", ds))
            elif kind == "attributes":
                ds = field(f":var {nm}: {ds}", ds)
                if typed:
                    lines.append(f":vartype {nm}: int")
                attrs.append((nm, "int" if typed else None, ds))
    want = [("text", "Summary.")]
    if params:
        want.append(("parameters", params))
    if attrs:
        want.append(("attributes", attrs))
    if rets:
        want.append(("returns", rets))
    if raises:
        want.append(("raises", raises))
    return lines, want  # (Sphinx style groups fields by kind; written order is only promised for Google and Numpy)


RENDER = {"google": render_google, "numpy": render_numpy, "sphinx": render_sphinx}
PARSE = {"google": lambda d: G.parse_google(d), "numpy": lambda d: NP.parse_numpy(d), "sphinx": lambda d: SP.parse_sphinx(d)}


def observed(secs, sphinx=False):
    out = []
    for s in secs:
        k = s.kind.value
        if k == "text":
            out.append(("text", s.value))
        elif k == "admonition":
            out.append(("admonition", s.value.annotation, s.title, s.value.description))
        else:
            items = []
            for it in s.value:
                ann = None if it.annotation is None else str(it.annotation)
                name = "" if k in ("raises", "warns") else (getattr(it, "name", "") or "")
                # a trailing newline (the blank line that separates two sections) is not counted as a difference
                items.append((name, ann, it.description.rstrip("\n")))
            out.append((k, items))
    return out


def _make(style, layouts):
    @obligation(
        pid="C13", name=f"{style}_roundtrip", timeout=tiered(280, 1500), path_timeout=60.0,
        shards=lambda: [(f"layout {i}: {lay}", None, [dict(layout=i, second=sec) for sec in (False, True)]) for i, lay in enumerate(layouts)],
        pre=lambda layout, second, n1, n2, d1, d2, title: all(1 <= len(n) <= tiered(1, 2) and all(c in "pq" for c in n) for n in (n1, n2)) and n1 != n2
        and all(1 <= len(d) <= 2 and d[0] == "d" and all(c in ("d:" if style != "sphinx" else "de") for c in d) for d in (d1, d2)) and len(title) <= 1 and all(c in "t" for c in title),
        drives=[{"google": G.parse_google, "numpy": NP.parse_numpy, "sphinx": SP.parse_sphinx}[style]],
        bounds={"layouts": [str(l) for l in layouts], "item names": f"1..{tiered(1, 2)} chars over 'pq' (distinct)", "descriptions": "'d' + optional second char (colon or space) , optional continuation line",
                "admonition title": "absent or 't'", "parent": "function whose signature documents the parameters: annotations/defaults come from it when omitted"},
        value_symbolic=["item names n1,n2", "descriptions d1,d2", "admonition title"], selectors=["layout (section kinds, item counts, typed or not), multi-line descriptions (driver-bound)"],
        stubs=STUBS + ["docstring.lines supplied pre-split"], must_cover=["parsed-back"] + (["annotation-from-return-signature"] if style == "google" else []),
        grid=lambda seed: [dict(layout=i, second=False, n1="p", n2="q", d1="d", d2="d:" if style != "sphinx" else "de", title="") for i in range(len(layouts))],
    )
    def roundtrip(layout: int, second: bool, n1: str, n2: str, d1: str, d2: str, title: str) -> bool:
        """parse(render(structure)) == structure."""
        lay = layouts[layout]
        lines, want = RENDER[style](lay, (n1, n2), (d1, d2), second, title)
        ret = PARENT_RETURNS.get(layout, "bool") if style == "google" else "bool"
        mod = Module("m")
        returns = "bool" if ret == "bool" else get_expression(ast.parse(ret, mode="eval").body, mod, parse_strings=False)
        parent = Function("f", parameters=Parameters(Parameter(n1, annotation="str", kind=PK.positional_or_keyword, default="0"), Parameter(n2, annotation="str", kind=PK.positional_or_keyword, default="1")), returns=returns)
        mod.set_member("f", parent)
        d = PreSplit(lines, parent)
        got = observed(PARSE[style](d))
        want = [tuple(w) for w in want]
        # annotations omitted in the docstring come from the signature
        norm = []
        for w in want:
            if w[0] in ("text", "admonition"):
                norm.append(w)
            else:
                norm.append((w[0], [("" if w[0] in ("raises", "warns") else nm,
                                     ("str" if ann == "SIG" else "bool" if ann == "RET" else _expected_from_signature(ret, *ann[1:]) if isinstance(ann, tuple) else ann), ds) for nm, ann, ds in w[1]]))
                if any(isinstance(ann, tuple) for _, ann, _ in w[1]):
                    cover("annotation-from-return-signature")
        if got != norm:
            return fail(f"{style}: parsed {got} != written {norm}; lines {lines}")
        cover("parsed-back")
        return True

    roundtrip.__name__ = f"{style}_roundtrip"
    return roundtrip


_make("google", LAYOUTS + [lay for lay, _ in GOOGLE_SIG_LAYOUTS] + GOOGLE_FENCE_LAYOUTS)
_make("numpy", [lay for lay in LAYOUTS if not any(k == "text" for k, _, _ in lay)])  # numpydoc has no free text between sections
_make("sphinx", SPHINX_LAYOUTS)
