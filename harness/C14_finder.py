"""C14 — module discovery matches the import system, independent of listing order (engine X, REDUCED claim).

The real ModuleFinder (find_spec / find_package / iter_submodules / submodules / _filter_py_modules) and the real
GriffeLoader (load / _load_package / _load_module_path / _load_submodules / _load_submodule / _get_or_create_parent_module)
run on an in-memory file system (os.walk and the pathlib.Path predicates are stubs over a dictionary of files).

  discovery : the file set is a solver-independent selector (<= 3 files, thorough 4, out of a vocabulary of module files,
              stubs, compiled-extension names, byte-code, dotted names, non-module files, sub-packages, directories without
              __init__, __pycache__), spread over one or two search paths; the ORDER in which every directory lists its
              entries is decided by symbolic integer sort keys, so the solver ranges over all enumeration orders.
              Asserted: the loaded tree equals the tree obtained with the canonical (sorted) order; every loaded module is
              importable by CPython at that dotted name from that file or comes from a stub file; every module CPython's
              package walker would find is loaded; package / sub-package / namespace classification follows the files;
              loading by the path of the top-level directory gives the same tree as loading by name.
              The reference (CPython's FileFinder / pkgutil rules, written with inspect.getmodulename) is validated on every
              run against the real import system on real scratch directories (grid + every counterexample).
Out of the claim: .pth files and editable installs, `.pyd`/`.pyo` (not importable on this platform), the real OS listing.
"""
from __future__ import annotations

import inspect as _inspect
import itertools
import os
import pathlib
from pathlib import Path

import _griffe.finder as F
import _griffe.loader as L
from _griffe.finder import ModuleFinder
from _griffe.loader import GriffeLoader
from _griffe.models import Module
from vlib.ob import HarnessDefect, cover, fail, obligation, tiered
from vlib.stubs import _is_tracing, plain_error_messages, realize_value, silence_logging

STUBS = silence_logging() + plain_error_messages()
ROOT = "/fs"
SO = "cpython-312-x86_64-linux-gnu.so"
VOCAB = [
    "a.py", "a.pyi", "b.py", f"a.{SO}", "a.b.py", "_c.py", "README.txt", "sub/__init__.py", "sub/b.py", "sub/b.pyi", "ns/c.py",
    "__pycache__/a.cpython-312.pyc", ".hidden.py", "sub/__init__.pyi", "a/__init__.py", "sub/deep/__init__.py", "sub/deep/d.py", "a.pyc", "sub/a.py", "ns/sub2/e.py",
]
LAYOUTS = ["regular", "namespace", "namespace-two-portions", "regular-then-module", "module-then-regular", "regular-twice", "pkgutil-namespace-two-portions"]
EXTEND = '"""A pkgutil-style namespace package (the declaration is not the first thing in the file)."""\n' + "__path__ = __import__('pkgutil').extend_path(__path__, __name__)\n"
NMAX = tiered(3, 4)


# ------------------------------------------------------------------------------------------- in-memory file system
class FakeFS:
    def __init__(self):
        self.files: dict[str, str] = {}
        self.children: dict[str, list[str]] = {}

    def add(self, path: str, content: str = ""):
        self.files[path] = content
        parts = path.split("/")
        for i in range(2, len(parts)):
            d = "/".join(parts[:i])
            self.children.setdefault(d, [])
            child = parts[i]
            if child not in self.children[d]:
                self.children[d].append(child)
        return self

    def is_dir(self, p):
        return p in self.children

    def exists(self, p):
        return p in self.children or p in self.files

    def reorder(self, order_of):
        """Sort every directory listing by order_of(absolute child path)."""
        for d, kids in self.children.items():
            kids.sort(key=lambda c: order_of(d + "/" + c))


FS = FakeFS()
_orig = {n: getattr(pathlib.Path, n) for n in ("exists", "is_dir", "is_file", "iterdir", "read_text", "resolve", "absolute")}


def _fake(p):
    s = str(p)
    return s == ROOT or s.startswith(ROOT + "/")


def _patch_pathlib():
    def exists(self, **kw):
        return FS.exists(str(self)) if _fake(self) else _orig["exists"](self, **kw)

    def is_dir(self, **kw):
        return FS.is_dir(str(self)) if _fake(self) else _orig["is_dir"](self, **kw)

    def is_file(self, **kw):
        return (str(self) in FS.files) if _fake(self) else _orig["is_file"](self, **kw)

    def iterdir(self):
        if not _fake(self):
            return _orig["iterdir"](self)
        s = str(self)
        if s not in FS.children:
            raise (NotADirectoryError if s in FS.files else FileNotFoundError)(s)
        return iter([self / c for c in FS.children[s]])

    def read_text(self, *a, **kw):
        if not _fake(self):
            return _orig["read_text"](self, *a, **kw)
        if str(self) not in FS.files:
            raise FileNotFoundError(str(self))
        return FS.files[str(self)]

    def resolve(self, *a, **kw):
        return self if _fake(self) else _orig["resolve"](self, *a, **kw)

    def absolute(self):
        return self if _fake(self) else _orig["absolute"](self)

    for n, f in dict(exists=exists, is_dir=is_dir, is_file=is_file, iterdir=iterdir, read_text=read_text, resolve=resolve, absolute=absolute).items():
        setattr(pathlib.Path, n, f)


class _FakeOS:
    """Stand-in for the `os` module inside _griffe.finder: os.walk over the fake tree, everything else real."""

    path = os.path

    @staticmethod
    def walk(top, topdown=True, followlinks=False):  # noqa: ARG004
        top = str(top)
        if not _fake(top):
            yield from os.walk(top, topdown=topdown, followlinks=followlinks)
            return
        if top not in FS.children:
            return
        dirs = [c for c in FS.children[top] if FS.is_dir(top + "/" + c)]
        files = [c for c in FS.children[top] if not FS.is_dir(top + "/" + c)]
        yield top, dirs, files
        for d in dirs:  # the caller may have pruned `dirs` in place
            yield from _FakeOS.walk(top + "/" + d)

    def __getattr__(self, name):
        return getattr(os, name)


_patch_pathlib()
F.os = _FakeOS()


def _stub_inspect(self, module_name, filepath=None, parent=None):
    return Module(module_name, filepath=filepath, parent=parent, lines_collection=self.lines_collection, modules_collection=self.modules_collection)


GriffeLoader._inspect_module = _stub_inspect
STUBS += ["os.walk inside _griffe.finder and pathlib.Path.exists/is_dir/is_file/iterdir/read_text/resolve/absolute answer from an in-memory file dictionary for paths under /fs",
          "GriffeLoader._inspect_module creates an empty Module for compiled files (nothing is imported); source files are really visited (they are empty)"]


# ------------------------------------------------------------------------------------------- scenario construction
def _place(layout, items, portions):
    """-> (search paths, {abs file path: content}); `portions` bit i: item i lives in the second location."""
    sp0, sp1 = ROOT + "/sp0", ROOT + "/sp1"
    files = {}
    tops = {"regular": [sp0], "namespace": [sp0], "namespace-two-portions": [sp0, sp1], "regular-then-module": [sp0], "module-then-regular": [sp1], "regular-twice": [sp0, sp1],
            "pkgutil-namespace-two-portions": [sp0, sp1]}[layout]
    for i, it in enumerate(items):
        loc = tops[((portions >> i) & 1) % len(tops)]
        files[f"{loc}/zpkg/{VOCAB[it]}"] = ""
    if layout in ("regular", "regular-then-module", "regular-twice"):
        files[sp0 + "/zpkg/__init__.py"] = ""
    if layout in ("module-then-regular", "regular-twice"):
        files[sp1 + "/zpkg/__init__.py"] = ""
    if layout == "pkgutil-namespace-two-portions":
        files[sp0 + "/zpkg/__init__.py"] = EXTEND
        files[sp1 + "/zpkg/__init__.py"] = EXTEND
    if layout == "regular-then-module":
        files[sp1 + "/zpkg.py"] = ""
    if layout == "module-then-regular":
        files[sp0 + "/zpkg.py"] = ""
    if layout in ("namespace", "namespace-two-portions"):
        files.setdefault(sp0 + "/zpkg/m0.py", "")  # every portion must exist as a directory
        if layout == "namespace-two-portions":
            files.setdefault(sp1 + "/zpkg/m1.py", "")
    # both search paths always exist
    files[sp0 + "/other.txt"] = ""
    files[sp1 + "/other.txt"] = ""
    return [sp0, sp1], files


def _install(files, order_of=None):
    FS.files.clear()
    FS.children.clear()
    FS.children[ROOT] = []
    for p in sorted(files):
        FS.add(p, files[p])
    FS.reorder(order_of or (lambda p: p))


def _summary(mod, out=None):
    out = {} if out is None else out
    fp = mod._filepath
    out[mod.path] = (tuple(sorted(str(x) for x in fp)) if isinstance(fp, list) else str(fp),
                     "package" if mod.is_package else "subpackage" if mod.is_subpackage else "namespace" if mod.is_namespace_package else "namespace-sub" if mod.is_namespace_subpackage else "module")
    for m in mod.members.values():
        if not m.is_alias and m.is_module:
            _summary(m, out)
    return out


def _load(search_paths, by_path):
    loader = GriffeLoader(search_paths=search_paths, allow_inspection=True)
    first = _first_location(search_paths)
    # "requested by the path of its top-level directory": only directories (a plain top-level module has no directory of its own)
    spec = Path(first) if by_path and FS.is_dir(first) else "zpkg"
    top = loader.load(spec)
    return _summary(top)


def _first_location(search_paths):
    for sp in search_paths:
        for cand in (sp + "/zpkg", sp + "/zpkg.py"):
            if FS.exists(cand):
                return cand
    raise HarnessDefect("no zpkg anywhere")


# ------------------------------------------------------------------------------------------- reference: CPython's rules
def _modname(fn):
    return _inspect.getmodulename(fn)  # CPython's own rule (importlib.machinery.all_suffixes)


_RANK = {"pkg": 0, "ext": 1, "src": 2, "pyc": 3}


def _candidates(files, d):
    """Importable children of directory d: name -> (rank, file or dir) following FileFinder precedence (package dir, extension, source, bytecode)."""
    best = {}
    names = sorted({p[len(d) + 1 :].split("/")[0] for p in files if p.startswith(d + "/")})
    for fn in names:
        full = d + "/" + fn
        if full in files:
            mn = _modname(fn)
            if not mn or "." in mn or mn == "__init__":
                continue
            rank = _RANK["src"] if fn.endswith(".py") else _RANK["pyc"] if fn.endswith(".pyc") else _RANK["ext"]
            cand = (rank, full, "file")
        else:
            if "." in fn or fn == "__pycache__":
                continue
            inits = [i for i in (full + "/__init__.py", full + f"/__init__.{SO}", full + "/__init__.pyc") if i in files]
            # a directory without __init__ is a namespace portion: it loses against any file module of the same name
            cand = (_RANK["pkg"], inits[0], "pkg") if inits else (9, full, "nsdir")
            mn = fn
        if mn not in best or cand[0] < best[mn][0]:
            best[mn] = cand
    return best


def _reference(search_paths, files):
    """-> (importable: {dotted: file}, walker: set of dotted names pkgutil.walk_packages yields below the top package, top kind, top file(s))"""
    tops = []
    for sp in search_paths:
        c = _candidates(files, sp).get("zpkg")
        if c:
            if c[2] == "pkg" and "extend_path" in files[c[1]]:
                # pkgutil-style namespace package: __path__ is extended with every portion; griffe models it as a namespace package
                c = (9, os.path.dirname(c[1]), "nsdir")
            tops.append(c)
    if not tops:
        raise HarnessDefect("zpkg not present")
    importable, walker = {}, set()
    pkgutil_style = [sp + "/zpkg/__init__.py" for sp in search_paths if "extend_path" in files.get(sp + "/zpkg/__init__.py", "")]
    first_real = next((t for t in tops if t[2] != "nsdir"), None)
    if first_real is not None:
        kind = "package" if first_real[2] == "pkg" else "module"
        importable["zpkg"] = first_real[1]
        roots = [(os.path.dirname(first_real[1]), "zpkg", True)] if kind == "package" else []
        top_files = first_real[1]
    else:
        kind = "namespace"
        roots = [(t[1], "zpkg", True) for t in tops]
        top_files = tuple(sorted(t[1] for t in tops))
        # CPython: a native namespace package has no origin, only portions; a pkgutil-style one imports the first portion's __init__ and extends __path__
        importable["zpkg"] = pkgutil_style[0] if pkgutil_style else top_files
    # breadth-first over packages; a name found in an earlier portion shadows later portions (first path entry wins)
    seen_names = set()

    def descend(dirs, prefix, walked):
        merged = {}
        for d in dirs:
            for mn, cand in _candidates(files, d).items():
                if mn not in merged:
                    merged[mn] = [cand]
                elif merged[mn][0][2] == "nsdir" and cand[2] == "nsdir":
                    merged[mn].append(cand)
                elif merged[mn][0][2] == "nsdir" and cand[2] != "nsdir":
                    merged[mn] = [cand]  # a real module/package in a later portion beats namespace directories
        for mn, cands in merged.items():
            dotted = prefix + "." + mn
            c = cands[0]
            if c[2] == "file":
                importable[dotted] = c[1]
                if walked:
                    walker.add(dotted)
            elif c[2] == "pkg":
                importable[dotted] = c[1]
                if walked:
                    walker.add(dotted)
                descend([os.path.dirname(c[1])], dotted, walked)
            else:
                # namespace sub-package: importable, but pkgutil's walker does not report it nor descend into it
                importable[dotted] = tuple(sorted(x[1] for x in cands))
                descend([x[1] for x in cands], dotted, False)

    if roots:
        descend([r[0] for r in roots], "zpkg", True)
    return importable, walker, kind, top_files


def _check_against_reference(tree, search_paths, files, label):
    importable, walker, kind, top_files = _reference(search_paths, files)
    for dotted in sorted(walker):
        if dotted not in tree:
            return f"{label}: CPython's package walker finds {dotted} ({importable[dotted]}), griffe did not load it; loaded: {sorted(tree)}"
    for dotted, (fp, k) in sorted(tree.items()):
        fps = fp if isinstance(fp, tuple) else (fp,)
        if all(f.endswith(".pyi") for f in fps):
            continue  # stub-only module (or stubs merged over the runtime module keep the runtime path; a pure .pyi path means stub-only)
        if dotted == "zpkg" and kind == "namespace" and k == "namespace" and set(fps) == set(top_files):
            continue  # a (pkgutil-style or native) namespace package is represented by the list of its portions
        if dotted not in importable:
            return f"{label}: griffe loaded {dotted} from {fp}, which CPython cannot import at that name; importable: {sorted(importable)}"
        want = importable[dotted]
        if isinstance(want, tuple):
            if not set(fps) <= set(want):
                return f"{label}: namespace package {dotted}: griffe has {fp}, CPython's portions are {want}"
        elif want not in fps:
            return f"{label}: {dotted}: griffe loaded it from {fp}, CPython imports it from {want}"
    top = tree.get("zpkg")
    if top is None:
        return f"{label}: top package missing from the tree"
    if top[1] != kind:
        return f"{label}: top-level zpkg classified {top[1]}, its files say {kind}"
    for dotted, (fp, k) in tree.items():
        if dotted == "zpkg":
            continue
        want = importable.get(dotted)
        fps = fp if isinstance(fp, tuple) else (fp,)
        if want is None or all(f.endswith(".pyi") for f in fps):
            continue  # stub-only modules/packages have no runtime counterpart to be classified against
        wk = "namespace-sub" if isinstance(want, tuple) else "subpackage" if os.path.basename(want).startswith("__init__.") else "module"
        if k != wk:
            return f"{label}: {dotted} classified {k}, its files say {wk}"
    return ""


# ------------------------------------------------------------------------------------------- the obligation
GROUPS = [[i for i, v in enumerate(VOCAB) if v.split("/")[0].split(".")[0] in ("a", "__pycache__")], [i for i, v in enumerate(VOCAB) if v.startswith("sub/")], [i for i, v in enumerate(VOCAB) if v.startswith("ns/")]]
THOROUGH = tiered(False, True)
TWO = ("namespace-two-portions", "regular-twice", "pkgutil-namespace-two-portions")
PERMS = {n: list(itertools.permutations(range(n))) for n in range(5)}


# ---- known-finding regions (see known_findings.json)
_SAME_NAME = [i for i, v in enumerate(VOCAB) if v in ("a.py", f"a.{SO}", "a.pyc", "a/__init__.py")]


def same_module_name_from_several_files(layout, items, portions):
    """Several RUNTIME files provide the module name `a` in a way griffe cannot rank: two of a.py / a.<abi>.so / a.pyc in the same
    directory (the one os.walk lists last wins), or two of a.py / a.<abi>.so / a.pyc / a/__init__.py in different portions of the
    package (the later portion wins). a.py next to a/__init__.py in ONE directory is handled correctly (the package directory is
    always walked after its parent's files) and is not part of the finding; a.pyi is a stub and never counts."""
    portions = realize_value(portions)
    where = {}
    for i, it in enumerate(items):
        if it in _SAME_NAME:
            side = ((portions >> i) & 1) if layout in TWO else 0
            where.setdefault(side, []).append(VOCAB[it])
    files_same_dir = any(sum(1 for f in fs if f != "a/__init__.py") >= 2 for fs in where.values())
    across = len(where) == 2
    return files_same_dir or across


def namespace_portion_shadowed(layout, items, portions):
    """In a namespace package spread over two portions, some directory has an __init__ module in one portion while
    the other portion holds module files below the same directory (CPython: the regular package shadows the other portion)."""
    if layout not in ("namespace-two-portions", "pkgutil-namespace-two-portions"):
        return False
    portions = realize_value(portions)
    where = {}
    for i, it in enumerate(items):
        where.setdefault((portions >> i) & 1, []).append(VOCAB[it])
    for side in (0, 1):
        for f in where.get(side, []):
            d, base = os.path.split(f)
            if d and base.startswith("__init__."):
                for g in where.get(1 - side, []):
                    if g.startswith(d + "/"):
                        return True
    return False


def _subsets():
    """quick: every subset of <= 2 files, and the triples of files that can interact (same module name `a`, same directory `sub` or `ns`);
    thorough: every subset of <= 3 files and the interacting quadruples."""
    out = [c for n in range(0, tiered(2, 3) + 1) for c in itertools.combinations(range(len(VOCAB)), n)]
    big = tiered(3, 4)
    for g in GROUPS:
        out += [c for c in itertools.combinations(g, big)]
    return sorted(set(out), key=lambda c: (len(c), c))


def _cases():
    out = []
    subsets = _subsets()
    for layout in LAYOUTS:
        chunk = tiered(24, 40) if layout in TWO else tiered(100, 160)
        for j in range(0, len(subsets), chunk):
            out.append((f"{layout},part={j // chunk}", None, [dict(layout=layout, items=list(c)) for c in subsets[j : j + chunk]]))
    return out


def _pre(layout, items, portions, perm, by_path):
    n = len(items)
    # the request form does not interact with the listing order: by_path is combined with the canonical order only (thorough: with every order)
    return (0 <= portions < (2 ** n if layout in TWO else 1) and 0 <= perm < len(PERMS[n]) and (layout != "module-then-regular" or not by_path)
            and (THOROUGH or not by_path or perm == 0))


def _keys(items, perm):
    """sort keys from a permutation index: file i is listed at rank PERMS[n][perm][i] among the chosen files"""
    return list(PERMS[len(items)][perm]) + [0] * (4 - len(items))


def _body(layout, items, portions, perm, by_path):
    ks = _keys(items, perm)
    search_paths, files = _place(layout, items, portions)
    order_of = _order_fn(items, files, ks)

    label = f"{layout} files={sorted(f[len(ROOT) + 1:] for f in files)} keys={list(ks[:len(items)])} by_path={by_path}"
    _install(files)
    canonical = _load(search_paths, False)
    _install(files, order_of)
    listing = {d: list(c) for d, c in FS.children.items()}
    got = _load(search_paths, by_path)
    if got != canonical:
        diff = {k: (got.get(k), canonical.get(k)) for k in set(got) | set(canonical) if got.get(k) != canonical.get(k)}
        return fail(f"{label}: the tree depends on the listing order / on how the package was requested. listing {listing}: (this run, canonical run) differ at {diff}")
    msg = _check_against_reference(got, search_paths, files, label)
    if msg:
        return fail(msg)
    cover("agrees-with-import-system")
    if any(k == "namespace-sub" for _, k in got.values()):
        cover("namespace-subpackage")
    if any(isinstance(fp, str) and fp.endswith(".so") for fp, _ in got.values()):
        cover("compiled-module")
    if perm > 0:
        cover("non-trivial-order")
    return True


def _grid(seed):
    import random

    rnd = random.Random(seed)
    pts = []
    for layout in LAYOUTS:
        for _ in range(12):
            n = rnd.randint(1, 3)
            items = sorted(rnd.sample(range(len(VOCAB)), n))
            pts.append(dict(layout=layout, items=items, portions=rnd.randrange(2 ** n) if layout in TWO else 0, perm=rnd.randrange(len(PERMS[n])), by_path=bool(rnd.getrandbits(1)) and layout != "module-then-regular"))
    return pts


@obligation(
    pid="C14", name="discovery", timeout=tiered(280, 2400), path_timeout=60.0, shards=_cases, pre=_pre,
    drives=[ModuleFinder.find_spec, ModuleFinder.find_package, ModuleFinder.iter_submodules, ModuleFinder.submodules, ModuleFinder._filter_py_modules, ModuleFinder._module_name_path, ModuleFinder._top_module_name,
            GriffeLoader.load, GriffeLoader._load_package, GriffeLoader._load_module_path, GriffeLoader._load_submodules, GriffeLoader._load_submodule, GriffeLoader._get_or_create_parent_module, F._module_depth],
    bounds={"files below the top-level package": f"every subset of <= {tiered(2, 3)} of {VOCAB}, plus every {tiered(3, 4)}-subset of files that can interact (same module name a, same directory sub or ns)", "layouts": LAYOUTS, "listing order": "every order of every directory listing (one symbolic permutation of the chosen files; fixed files list last)",
            "request": "by dotted name or by the path of the top-level directory"},
    value_symbolic=["perm: index of the permutation that decides the enumeration order of every directory (all n! orders)", "portions: which search path / namespace portion each file lives in", "by_path"],
    selectors=["layout, file subset (driver-bound: every subset up to the bound)"], stubs=STUBS,
    assumptions=["reference = CPython's FileFinder precedence and pkgutil.walk_packages rules written with inspect.getmodulename; validated on every run against the real import system (importlib.util.find_spec, pkgutil.walk_packages in a subprocess) on real scratch directories for the grid points and for every counterexample",
                 "the symbolic inputs are realised (the engine forks over every permutation / placement) before the loader runs, which then executes natively on the fake file system"],
    must_cover=["agrees-with-import-system", "namespace-subpackage", "compiled-module", "non-trivial-order"], grid=_grid, replay=lambda **kw: _replay(**kw),
)
def discovery(layout: str, items: list, portions: int, perm: int, by_path: bool) -> bool:
    """Loaded tree = canonical-order tree = what CPython's import system finds, for every enumeration order."""
    vals = [realize_value(v) for v in (portions, perm, by_path)]
    if _is_tracing():
        from crosshair.tracers import NoTracing

        with NoTracing():
            return _body(layout, items, *vals)
    return _body(layout, items, *vals)


# ------------------------------------------------------------------------------------------- replay on a real directory + the real import system
_PROBE = r'''
import importlib.util, json, pkgutil, sys
sys.path[:0] = json.loads(sys.argv[1])
out = {"walker": [], "specs": {}}
import zpkg
if hasattr(zpkg, "__path__"):
    for m in pkgutil.walk_packages(zpkg.__path__, "zpkg."):
        out["walker"].append(m.name)
for name in json.loads(sys.argv[2]):
    try:
        s = importlib.util.find_spec(name)
    except Exception as e:
        s = None
    out["specs"][name] = None if s is None else (s.origin if s.origin else sorted(s.submodule_search_locations or []))
out["top"] = getattr(zpkg, "__file__", None) or sorted(zpkg.__path__)
print(json.dumps(out))
'''


def _order_fn(items, files, ks):
    key_of = {}
    for i, it in enumerate(items):
        for f in files:
            if f.endswith("/zpkg/" + VOCAB[it]):
                key_of[f] = ks[i]

    def order_of(p):
        # a directory entry takes the smallest key of the chosen files below it; fixed files (inits, fillers) have key n
        below = [v for f, v in key_of.items() if f == p or f.startswith(p + "/")]
        return (min(below) if below else len(items), p)

    return order_of


_REAL_RUN = r'''
import json, os, sys
from pathlib import Path
import _griffe.finder as F
import _griffe.loader as L
from _griffe.models import Module
L.GriffeLoader._inspect_module = lambda self, module_name, filepath=None, parent=None: Module(module_name, filepath=filepath, parent=parent, lines_collection=self.lines_collection, modules_collection=self.modules_collection)
sps, spec, order = json.loads(sys.argv[1]), sys.argv[2], json.loads(sys.argv[3])
class OS:
    path = os.path
    keyed = True
    def walk(self, top, topdown=True, followlinks=False):
        for root, dirs, files in os.walk(top, topdown=topdown, followlinks=followlinks):
            k = (lambda n: tuple(order.get(os.path.join(root, n), [99, n]))) if self.keyed else (lambda n: n)
            dirs.sort(key=k); files.sort(key=k)
            yield root, dirs, files
    def __getattr__(self, n):
        return getattr(os, n)
F.os = OS()
def summ(m, out):
    fp = m._filepath
    out[m.path] = [sorted(str(x) for x in fp) if isinstance(fp, list) else str(fp), 'package' if m.is_package else 'subpackage' if m.is_subpackage else 'namespace' if m.is_namespace_package else 'namespace-sub' if m.is_namespace_subpackage else 'module']
    [summ(x, out) for x in m.members.values() if not x.is_alias and x.is_module]
    return out
run = summ(L.GriffeLoader(search_paths=sps, allow_inspection=True).load(Path(spec) if spec.startswith('/') else spec), {})
F.os.keyed = False
canonical = summ(L.GriffeLoader(search_paths=sps, allow_inspection=True).load('zpkg'), {})
print(json.dumps({"run": run, "canonical": canonical}))
'''


def _replay(layout, items, portions, perm, by_path):
    """Real files, the real finder/loader in a fresh interpreter (only the ORDER of os.walk's results is injected), the real import system."""
    import json
    import shutil
    import subprocess
    import sys
    import tempfile

    search_paths, files = _place(layout, items, portions)
    order_of = _order_fn(items, files, _keys(items, perm))
    tmp = tempfile.mkdtemp(prefix="c14_")
    try:
        for p, content in files.items():
            rp = tmp + p[len(ROOT):]
            os.makedirs(os.path.dirname(rp), exist_ok=True)
            with open(rp, "w") as f:
                f.write(content)
        _install(files)
        order = {tmp + (d + "/" + c)[len(ROOT):]: list(order_of(d + "/" + c)) for d, kids in FS.children.items() for c in kids}
        rsp = [tmp + sp[len(ROOT):] for sp in search_paths]
        env = dict(os.environ, PYTHONDONTWRITEBYTECODE="1")
        first = None
        for sp in rsp:
            for cand in (sp + "/zpkg", sp + "/zpkg.py"):
                if first is None and os.path.exists(cand):
                    first = cand
        r = subprocess.run([sys.executable, "-c", _REAL_RUN, json.dumps(rsp), first if by_path and os.path.isdir(first) else "zpkg", json.dumps(order)], capture_output=True, text=True, env=env, cwd=tmp, timeout=120)
        if r.returncode != 0:
            return True, f"griffe.load raised on the real tree: {r.stderr[-1500:]}"

        def unreal(p):
            return ROOT + p[len(tmp):] if p.startswith(tmp) else p

        def norm(t):
            return {k: (tuple(unreal(x) for x in v[0]) if isinstance(v[0], list) else unreal(v[0]), v[1]) for k, v in t.items()}

        res = json.loads(r.stdout)
        tree, canonical = norm(res["run"]), norm(res["canonical"])
        # the real import system
        pr = subprocess.run([sys.executable, "-S", "-c", _PROBE, json.dumps(rsp), json.dumps(sorted(set(tree) | set(canonical)))], capture_output=True, text=True, env=env, cwd=tmp, timeout=120)
        if pr.returncode != 0:
            raise HarnessDefect(f"probe of the real import system failed: {pr.stderr[-1200:]}")
        probe = json.loads(pr.stdout)
        # (a) validate the reference model against the real import system
        importable, walker, kind, top_files = _reference(search_paths, files)
        real_walker = set(probe["walker"])
        if real_walker != walker:
            raise HarnessDefect(f"reference walker {sorted(walker)} != pkgutil.walk_packages {sorted(real_walker)} for files {sorted(files)}")
        for name, origin in probe["specs"].items():
            o = tuple(sorted(unreal(x) for x in origin)) if isinstance(origin, list) else (unreal(origin) if origin else None)
            w = importable.get(name)
            if o != w:
                raise HarnessDefect(f"reference says {name} -> {w}, importlib.util.find_spec says {o} (files {sorted(files)})")
        # (b) the fake file system must agree with the real directory under the same injected order
        _install(files, order_of)
        fake = _load(search_paths, by_path)
        if fake != tree:
            raise HarnessDefect(f"fake file system and real directory give different trees under the same order: {fake} vs {tree}")
        # (c) the property on the real directory
        if tree != canonical:
            return True, f"on a real directory the tree depends on the order in which os.walk lists entries / on the request form: {tree} vs canonical {canonical}"
        msg = _check_against_reference(tree, search_paths, files, "real directory")
        if msg:
            return True, msg
        return False, "real directory, real import system and reference agree"
    finally:
        shutil.rmtree(tmp, ignore_errors=True)
