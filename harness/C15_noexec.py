"""C15 — static loading never executes analysed code; the interpreter's import path is restored (engine X).

The safety promise is a gate property: code of the analysed package can only run through importlib, which griffe reaches
through `dynamic_import` (loader fallback, Inspector.get_module) and `inspect()` (GriffeLoader._inspect_module). The gates are
executed symbolically with the environment stubbed:
  agent_selection   : _load_module_path with a symbolic file suffix and symbolic allow/force flags;
  load_fallback     : GriffeLoader.load / resolve_aliases(external=True) / expand_wildcards(external=True) when the package is
                      not found on disk: dynamic import is reached iff inspection is allowed or forced;
  sys_path_restored : dynamic_import / sys_path with importlib.import_module and getattr behaving according to a solver-chosen
                      fault schedule (return, Exception, ImportError, SystemExit, KeyboardInterrupt at each attempt).
A static call-graph fact is re-checked at import of this module and fails closed (exit 3) when a new caller of the gates appears.
"""
from __future__ import annotations

import ast
import sys
from pathlib import Path

import _griffe.importer as IMP
import _griffe.loader as L
from _griffe.collections import ModulesCollection
from _griffe.exceptions import LoadingError
from _griffe.loader import GriffeLoader
from _griffe.models import Alias, Module
from vlib.ob import TIER, HarnessDefect, cover, fail, obligation, tiered
from vlib.stubs import plain_error_messages, realize_value, silence_logging

STUBS = silence_logging() + plain_error_messages()

# ---- static gate list (fail closed) ----------------------------------------------------------------------------------
EXPECTED_CALLERS = {
    "dynamic_import": {("_griffe/extensions/base.py", "_load_extension"), ("_griffe/agents/inspector.py", "get_module"), ("_griffe/loader.py", "load")},
    "inspect": {("_griffe/loader.py", "_inspect_module"), ("_griffe/tests.py", "temporary_inspected_module")},
    "import_module": {("_griffe/importer.py", "dynamic_import")},
}


def _callers():
    root = Path(L.__file__).parent
    found = {k: set() for k in EXPECTED_CALLERS}
    for py in root.rglob("*.py"):
        tree = ast.parse(py.read_text())
        for fn in ast.walk(tree):
            if isinstance(fn, (ast.FunctionDef, ast.AsyncFunctionDef)):
                for node in ast.walk(fn):
                    if isinstance(node, ast.Call) and isinstance(node.func, ast.Name) and node.func.id in found:
                        found[node.func.id].add((str(py.relative_to(root.parent)), fn.name))
    return found


_found = _callers()
for _gate, _want in EXPECTED_CALLERS.items():
    _extra = {c for c in _found[_gate] if c not in _want and not (c[1] in {w[1] for w in _want})}
    # nested helper functions show up under their own name too; only report callers in functions we do not know
    if _extra:
        raise HarnessDefect(f"gate list changed: new caller(s) of {_gate}: {sorted(_extra)} - review harness/C15_noexec.py before trusting this check")


class FakePath:
    """Stands for the module file: _load_module_path only looks at its suffix."""

    def __init__(self, suffix):
        self.suffix = suffix
        self.stem = "mod"
        self.name = "mod" + str(suffix)


# ================================================================================ agent selection
SUFFIX_AL = ".pyisoc"


@obligation(
    pid="C15", name="agent_selection", timeout=tiered(250, 900),
    shards=lambda: [(f"suffix-length={n},namespace={ns}", None, [dict(n=n, is_list=ns)]) for n in range(0, tiered(4, 5)) for ns in (False, True) if not (ns and n)],
    pre=lambda n, is_list, suffix, allow, force: len(suffix) == n and all(c in SUFFIX_AL for c in suffix) and (n == 0 or suffix[0] == "."),
    drives=[GriffeLoader._load_module_path],
    bounds={"suffix": f"'.' followed by up to {tiered(2, 3)} characters over 'pyisoc' (.py .pyi .so .pyc .pyo .pyd-like), or empty", "flags": "allow_inspection, force_inspection", "path kind": "file or namespace list"},
    value_symbolic=["file suffix", "allow_inspection", "force_inspection"], selectors=["suffix length, namespace-package list (driver-bound)"],
    stubs=STUBS + ["_visit_module/_inspect_module/_create_module record the call and return an empty Module", "submodules=False (no file system access)"],
    must_cover=["visited", "inspected", "refused"],
    grid=lambda seed: [dict(n=len(s), is_list=False, suffix=s, allow=a, force=f) for s in ("", ".py", ".pyi", ".so") for a in (False, True) for f in (False, True)],
)
def agent_selection(n: int, is_list: bool, suffix: str, allow: bool, force: bool) -> bool:
    """Runtime inspection is reached only if force_inspection, or allow_inspection and the file is not .py/.pyi; otherwise LoadingError."""
    calls = []
    loader = GriffeLoader(search_paths=[Path("/nonexistent")], allow_inspection=allow, force_inspection=force)
    loader._visit_module = lambda *a, **k: calls.append("visit") or Module("mod")
    loader._inspect_module = lambda *a, **k: calls.append("inspect") or Module("mod")
    loader._create_module = lambda *a, **k: calls.append("create") or Module("mod")
    path = [FakePath(suffix)] if is_list else FakePath(suffix)
    try:
        loader._load_module_path("mod", path, submodules=False)
        raised = False
    except LoadingError:
        raised = True
    if is_list:
        return calls == ["create"] or fail(f"namespace package path: {calls}")
    if force:
        want = "inspect"
    elif suffix in (".py", ".pyi"):
        want = "visit"
    elif allow:
        want = "inspect"
    else:
        want = None
    if want is None:
        cover("refused")
        return (raised and calls == []) or fail(f"suffix {suffix!r} allow={allow} force={force}: expected LoadingError, got calls {calls}")
    cover("visited" if want == "visit" else "inspected")
    if "inspect" in calls and not (force or allow):
        return fail("inspection reached although it is neither allowed nor forced")
    return (not raised and calls == [want]) or fail(f"suffix {suffix!r} allow={allow} force={force}: calls {calls}, raised={raised}, expected {want}")


# ================================================================================ loader fallback
ROUTES = ["load", "resolve_aliases_external", "expand_wildcards_external"]


@obligation(
    pid="C15", name="load_fallback", timeout=tiered(250, 900),
    shards=lambda: [(f"route={r}", None, [dict(route=r)]) for r in ROUTES],
    pre=lambda route, allow, force, external: -1 <= external <= 1,
    drives=[GriffeLoader.load, GriffeLoader.resolve_module_aliases, GriffeLoader.expand_wildcards],
    bounds={"route": ROUTES, "flags": "allow_inspection, force_inspection", "external": "None/False/True"},
    value_symbolic=["allow_inspection", "force_inspection", "external"], selectors=["route to GriffeLoader.load (driver-bound)"],
    stubs=STUBS + ["ModuleFinder.find_spec raises ModuleNotFoundError (package not on disk)", "loader.dynamic_import records the request and raises ImportError"],
    must_cover=["import-attempted", "no-import"],
    grid=lambda seed: [dict(route=r, allow=a, force=f, external=e) for r in ROUTES for a in (False, True) for f in (False, True) for e in (-1, 0, 1)],
)
def load_fallback(route: str, allow: bool, force: bool, external: int) -> bool:
    """With inspection disallowed nothing is ever imported, even when alias resolution / wildcard expansion is asked to load external packages."""
    requested = []
    saved = L.dynamic_import

    def fake_dynamic_import(path, paths=None):
        requested.append(path)
        raise ImportError("stub: import refused")

    L.dynamic_import = fake_dynamic_import
    try:
        col = ModulesCollection()
        loader = GriffeLoader(modules_collection=col, search_paths=[Path("/nonexistent")], allow_inspection=allow, force_inspection=force)

        def no_spec(*a, **k):
            raise ModuleNotFoundError("stub: not on disk")

        loader.finder.find_spec = no_spec
        ext = None if external < 0 else bool(external)
        if route == "load":
            try:
                loader.load("extpkg", try_relative_path=False)
            except (ImportError, LoadingError):
                pass
        else:
            pkg = Module("pkg")
            col.set_member("pkg", pkg)
            if route == "resolve_aliases_external":
                pkg.set_member("x", Alias("x", "extpkg.thing", lineno=1, endlineno=1))
                pkg.exports = ["x"]
                loader.resolve_aliases(implicit=True, external=ext)
            else:
                pkg.set_member("extpkg/*", Alias("extpkg/*", "extpkg", lineno=1, endlineno=1))
                loader.expand_wildcards(pkg, external=ext)
    finally:
        L.dynamic_import = saved
    may_import = allow or force
    if route != "load" and ext is not True:
        may_import = False  # external packages are only loaded on request (None loads only the private sibling `_pkg`)
    if requested and not (allow or force):
        return fail(f"{route}: dynamic import of {requested} attempted although inspection is neither allowed nor forced")
    if requested and not may_import:
        return fail(f"{route}: dynamic import of {requested} attempted with external={ext}")
    if may_import and not requested:
        return fail(f"{route}: expected an import attempt (inspection allowed, external={ext})")
    cover("import-attempted" if requested else "no-import")
    return True


# ================================================================================ sys.path restored
OUTCOMES = ["ok", "Exception", "ImportError", "SystemExit", "KeyboardInterrupt"]
EXC = {"Exception": RuntimeError, "ImportError": ImportError, "SystemExit": SystemExit, "KeyboardInterrupt": KeyboardInterrupt}


class _Obj:
    pass


@obligation(
    pid="C15", name="sys_path_restored", timeout=tiered(250, 900),
    shards=lambda: [(f"parts={k},paths={p},touch={t},code%{m}={r}", (lambda m, r: lambda **kw: kw["code"] % m == r)(m, r), [dict(nparts=k, with_paths=p, touch=t)])
                    for k in (1, 2, 3) for p in (False, True) for t in range(3 if p else 1) for m in ((1, 2, 6)[k - 1],) for r in range(m)],
    pre=lambda nparts, with_paths, code, touch: 0 <= code < 5 ** nparts * (nparts + 1) and 0 <= touch <= (2 if with_paths else 0),  # without import paths griffe installs no list of its own: what imported code does to sys.path is then its own business
    drives=[IMP.dynamic_import, IMP.sys_path],
    bounds={"import path": "1..3 dotted parts", "import_module outcome at attempt i": OUTCOMES, "getattr": "fails (with each exception kind) at position 0..2 or never", "import_paths": "given or not",
            "imported code": "leaves sys.path alone / mutates it in place / rebinds sys.path to a new list (the vendoring idiom) during the first import attempt"},
    value_symbolic=["the fault schedule: outcome of each import attempt and position of the failing attribute access, encoded in one integer"], selectors=["number of parts, import_paths given, what the imported code does to sys.path (driver-bound)"],
    stubs=STUBS + ["importer.import_module follows the fault schedule; every choice is realised before entry (dynamic_import catches BaseException, which would swallow the engine's control exceptions)"],
    must_cover=["imported", "import-error", "imported-code-rebinds-sys.path"],
    grid=lambda seed: [dict(nparts=k, with_paths=p, code=c, touch=(c % 3 if p else 0)) for k in (1, 3) for p in (False, True) for c in range(0, 5 ** k * (k + 1), 7)],
)
def sys_path_restored(nparts: int, with_paths: bool, code: int, touch: int) -> bool:
    """Whatever import_module/getattr do (return, raise, exit, interrupt), sys.path is the identical list with identical contents afterwards; failures surface as ImportError."""
    # one solver variable encodes the whole fault schedule: outcome of each of the nparts import attempts (base 5) and the failing getattr position
    code = realize_value(code)
    touch = realize_value(touch)
    o1, o2, o3 = code % 5, (code // 5) % 5 if nparts > 1 else 1, (code // 25) % 5 if nparts > 2 else 1
    attr_fail = code // (5 ** nparts)
    from harness.C08_json import _native

    def run():
        schedule = [OUTCOMES[o] for o in (o1, o2, o3)]
        attempts = []

        class Leaf:
            def __getattr__(self, name):
                idx = len(attempts_attr)
                attempts_attr.append(name)
                if attr_fail and idx == attr_fail - 1:
                    raise EXC[OUTCOMES[1 + (idx % 4)]]("stub")
                return Leaf()

        attempts_attr = []

        def fake_import(path):
            i = len(attempts)
            attempts.append(path)
            if i == 0 and touch == 1:
                sys.path.insert(0, "/added-by-imported-code")  # the analysed code mutates the (temporary) list in place
            elif i == 0 and touch == 2:
                sys.path = ["/vendored-by-imported-code", *sys.path]  # the analysed code REBINDS sys.path
            out = schedule[i] if i < len(schedule) else "ImportError"
            if out == "ok":
                return Leaf()
            raise EXC[out]("stub")

        saved_import = IMP.import_module
        IMP.import_module = fake_import
        before_obj, before = sys.path, list(sys.path)
        err = None
        try:
            try:
                IMP.dynamic_import(".".join("abc"[:nparts]), ["/p1", "/p2"] if with_paths else None)
                status = "imported"
            except ImportError:
                status = "import-error"
            except BaseException as e:  # noqa: BLE001
                status = "other"
                err = f"dynamic_import let {type(e).__name__} escape (failures must surface as ImportError)"
        finally:
            IMP.import_module = saved_import
            restored = sys.path is before_obj and sys.path == before
            sys.path = before_obj
            sys.path[:] = before
        if not restored:
            return status, "sys.path was not restored to the identical list"
        return status, err

    status, err = _native(run)
    if err:
        return fail(err)
    cover(status)
    if touch == 2:
        cover("imported-code-rebinds-sys.path")
    return True
