"""C16 — object-tree invariants hold after any history of member mutations (engine X).

Inductive step (one API call from an arbitrary valid pre-state): the pre-state is a small tree whose aliases are
resolved or not by symbolic choice; one operation (set_member / __setitem__ / del_member / __delitem__ / get_member /
__getitem__) is applied to a receiver with a solver-chosen key (dotted string or tuple whose segments range over existing
names, names reached through aliases, fresh names and the empty string) and a fresh value inserted under its own name.
Afterwards the invariants of the statement must hold, or - after KeyError/ValueError - the state must be unchanged.
`histories` replays short operation sequences from an empty collection against a reference dictionary model.
"""
from __future__ import annotations

from _griffe.collections import ModulesCollection
from pathlib import Path

from _griffe.exceptions import AliasResolutionError, CyclicAliasError
from _griffe.mixins import DelMembersMixin, GetMembersMixin, SetMembersMixin, _get_parts
from _griffe.models import Alias, Attribute, Class, Function, Module
from vlib.ob import TIER, cover, fail, obligation, tiered, prop
from vlib.stubs import plain_error_messages, silence_logging

STUBS = silence_logging() + plain_error_messages()
SEG = "fCxbz"  # f: function, C: class, x: attribute of C, b: alias to the class C, z: fresh name; '' = empty segment


def build(ra, rb, rr):
    col = ModulesCollection()
    m, n = Module("m"), Module("n")
    col.set_member("m", m)
    col.set_member("n", n)
    m.set_member("f", Function("f", lineno=1, endlineno=2))
    c = Class("C", lineno=3, endlineno=6)
    m.set_member("C", c)
    c.set_member("x", Attribute("x", lineno=4, endlineno=4))
    c.set_member("k", Function("k", lineno=5, endlineno=6))
    m.set_member("a", Alias("a", "m.f", lineno=7, endlineno=7))
    m.set_member("b", Alias("b", "m.C", lineno=8, endlineno=8))
    n.set_member("g", Function("g", lineno=1, endlineno=2))
    n.set_member("r", Alias("r", "m.C.x", lineno=3, endlineno=3))
    n.set_member("s", Alias("s", "m.a", lineno=4, endlineno=4))
    if ra:
        m.members["a"].target  # noqa: B018  (resolves)
    if rb:
        m.members["b"].target  # noqa: B018
    if rr:
        n.members["r"].target  # noqa: B018
        n.members["s"].target  # noqa: B018
    return col, m, n, c


def walk(col):
    out = []

    def rec(o):
        out.append(o)
        if not o.is_alias:
            for mem in o.members.values():
                rec(mem)

    for mod in col.members.values():
        rec(mod)
    return out


def snapshot(col):
    return [(id(o), o.name, None if o.is_alias else tuple(o.members.keys()), id(o._target) if o.is_alias and o._target is not None else None) for o in walk(col)]


def same_object(a, b) -> bool:
    """Identity, or - for the member views an alias creates on the fly - the same path leading to the same final object."""
    if a is b:
        return True
    if a.is_alias and b.is_alias and a.path == b.path:
        try:
            return a.final_target is b.final_target
        except (AliasResolutionError, CyclicAliasError):
            return a.target_path == b.target_path
    return False


def invariants(col) -> bool:
    for o in walk(col):
        # every member's parent is its container / every object is retrievable from the collection by its own path
        if not o.is_alias:
            for name, mem in o.members.items():
                if mem.parent is not o:
                    return fail(f"{o.path}.{name}: parent is not its container")
        try:
            path = o.path
        except Exception:  # noqa: BLE001
            return fail("path raised")
        try:
            got = col.get_member(path)
        except (KeyError, AliasResolutionError, CyclicAliasError):
            return fail(f"{path}: not retrievable from the collection by its own path")
        if got is not o:
            return fail(f"{path}: collection returns a different object for this path")
        # dotted lookup == chained lookup
        parts = path.split(".")
        cur = col
        for p in parts:
            cur = cur.get_member(p)
        if cur is not o:
            return fail(f"{path}: dotted lookup differs from chained lookup")
        if o.is_alias:
            # an alias never targets itself; dereferencing raises only the two documented errors
            try:
                t = o.target
                if t is o:
                    return fail(f"{path}: alias targets itself")
                ft = o.final_target
                if ft.is_alias:
                    return fail(f"{path}: final target is an alias")
            except (AliasResolutionError, CyclicAliasError):
                cover("unresolvable-after-op")
                continue
            # every resolved alias is listed among its target's aliases under its current path
            if o._target is not None:
                if o._target.aliases.get(path) is not o:
                    return fail(f"{path}: resolved alias is not registered in its target's aliases under its current path")
                cover("alias-registered")
    return True


OPS = ["set_member", "__setitem__", "del_member", "__delitem__", "get_member", "__getitem__"]
RECV = ["m", "C", "col"]
VALS = ["function", "alias_f", "alias_self", "alias_resolved", "alias_missing", "class"]


def _key(form, recv, s1, s2, s3):
    segs = {"s1": [s1], "s2": [s1, s2], "s3": [s1, s2, s3], "t2": [s1, s2]}[form]
    if recv == "col":
        segs = ["m", *segs]
    return tuple(segs) if form == "t2" else ".".join(segs)


def _shards():
    out = []
    forms = tiered(["s1", "s2", "t2"], ["s1", "s2", "t2", "s3"])
    for op in OPS:
        for recv in RECV:
            for form in forms:
                cases = []
                for val in (tiered(VALS[:4], VALS) if op in ("set_member", "__setitem__") else ["function"]):
                    d = dict(op=op, recv=recv, form=form, val=val)
                    if form in ("s1",):
                        d.update(s2="z", s3="z")
                    elif form in ("s2", "t2"):
                        d.update(s3="z")
                    cases.append(d)
                out.append((f"op={op},receiver={recv},key-form={form}", None, cases))
    return out


@obligation(
    pid="C16", name="one_step", timeout=tiered(280, 1500), shards=_shards,
    pre=lambda op, recv, form, val, s1, s2, s3, ra, rb, rr: all(len(s) <= 1 and (s == "" or s in SEG) for s in (s1, s2, s3)) and (TIER == "thorough" or rb == ra),
    drives=[SetMembersMixin.set_member, SetMembersMixin.__setitem__, DelMembersMixin.del_member, DelMembersMixin.__delitem__, GetMembersMixin.get_member, GetMembersMixin.__getitem__, _get_parts,
            prop(Alias, "target"), Alias.target.fset, Alias.resolve_target, Alias._update_target_aliases],
    bounds={"pre-state": "collection{m{f, C{x, k}, a->m.f, b->m.C}, n{g, r->m.C.x, s->m.a}}, each alias resolved or not", "operation": OPS, "receiver": "module m, class C, or the collection (key prefixed with 'm')",
            "key": "dotted string of 1..2 (thorough: 3) segments, or a 2-tuple; every segment a symbolic string: one of 'f','C','x','b','z' or empty", "value": tiered(VALS[:4], VALS), "quick restriction": "aliases a and b resolved together"},
    value_symbolic=["key segments s1,s2,s3", "which aliases are already resolved (ra, rb, rr)"], selectors=["operation, receiver, key form, kind of inserted value (driver-bound)"],
    stubs=STUBS, must_cover=["set-ok", "del-ok", "get-ok", "clean-error", "aliases-followed-replacement", "alias-registered"],
    grid=lambda seed: [dict(op=o, recv="m", form="s1", val="function", s1=k, s2="z", s3="z", ra=True, rb=True, rr=True) for o in OPS for k in ("f", "z", "C")],
)
def one_step(op: str, recv: str, form: str, val: str, s1: str, s2: str, s3: str, ra: bool, rb: bool, rr: bool) -> bool:
    """One API call from a valid pre-state preserves the tree invariants (or fails cleanly leaving the state unchanged)."""
    if not invariants(build(ra, rb, rr)[0]):  # (on a throw-away copy: checking dereferences, hence resolves, aliases)
        return fail("pre-state does not satisfy the invariants (harness defect)")
    col, m, n, c = build(ra, rb, rr)
    receiver = {"m": m, "C": c, "col": col}[recv]
    key = _key(form, recv, s1, s2, s3)
    parts = list(key) if isinstance(key, tuple) else key.split(".")
    last = parts[-1]
    before = snapshot(col)
    if op in ("set_member", "__setitem__"):
        name = last if last else "z"
        if val == "function":
            value = Function(name, lineno=20, endlineno=21)
        elif val == "class":
            value = Class(name, lineno=20, endlineno=21)
        elif val == "alias_f":
            value = Alias(name, "m.f", lineno=20, endlineno=20)
        elif val == "alias_resolved":
            # an alias created with its target OBJECT (already resolved) and no parent yet, as extension code does; it is attached afterwards
            value = Alias(name, m.members["f"], lineno=20, endlineno=20)
        elif val == "alias_missing":
            value = Alias(name, "q.z", lineno=20, endlineno=20)
        else:  # an alias whose target path is the very path it is inserted at
            base = {"m": "m", "C": "m.C", "col": ""}[recv]
            full = ".".join([p for p in [base, *([] if recv != "col" else []), *parts] if p != ""]) if recv != "col" else ".".join(parts)
            value = Alias(name, full if full else "m", lineno=20, endlineno=20)
        # the object currently stored there, and the resolved aliases registered on it
        try:
            old = receiver.get_member(key)
        except Exception:  # noqa: BLE001
            old = None
        old_aliases = list(old.aliases.values()) if (old is not None and not old.is_alias) else []
        try:
            getattr(receiver, op)(key, value)
        except Exception as e:  # noqa: BLE001  (the statement does not say which error; it must leave the tree as it was)
            cover("clean-error")
            cover("error:" + type(e).__name__)
            return snapshot(col) == before or fail(f"{op}({key!r}) raised {type(e).__name__} and left the tree changed")
        if last == "":
            cover("empty-last-segment-accepted")
        # stored under the given key, parented to its container, retrievable
        try:
            got = receiver.get_member(key)
        except (KeyError, ValueError, AliasResolutionError, CyclicAliasError):
            return fail(f"{op}({key!r}) succeeded but the member cannot be retrieved with the same key")
        if not same_object(got, value):
            return fail(f"{op}({key!r}): another object is stored under the key")
        if last != "" and all(p != "" for p in parts):
            cover("set-ok")
            if not invariants(col):
                return False
            if op == "set_member" and old is not None and old is not value:
                # aliases that pointed at the replaced object follow the replacement
                for al in old_aliases:
                    try:
                        if al.target is not value:
                            return fail(f"alias {al.path} still targets the replaced object")
                        cover("aliases-followed-replacement")
                    except (AliasResolutionError, CyclicAliasError):
                        pass
        return True
    if op in ("del_member", "__delitem__"):
        try:
            getattr(receiver, op)(key)
        except Exception as e:  # noqa: BLE001
            cover("clean-error")
            cover("error:" + type(e).__name__)
            return snapshot(col) == before or fail(f"{op}({key!r}) raised {type(e).__name__} and left the tree changed")
        cover("del-ok")
        try:
            receiver.get_member(key)
            return fail(f"{op}({key!r}) succeeded but the member is still there")
        except (KeyError, ValueError, AliasResolutionError, CyclicAliasError):
            pass
        return invariants(col)
    # lookups: dotted == chained, and no state change
    try:
        got = getattr(receiver, op)(key)
    except (KeyError, ValueError, AliasResolutionError, CyclicAliasError):
        cover("clean-error")
        got = None
    if got is not None:
        cover("get-ok")
        cur = receiver
        for p in parts:
            cur = getattr(cur, op)(p)
        if not same_object(cur, got):
            return fail(f"{op}({key!r}) differs from the chained lookup")
    # a lookup may resolve aliases (documented) but must not change membership
    after = snapshot(col)
    if [(a, b, c_) for a, b, c_, _ in after] != [(a, b, c_) for a, b, c_, _ in before]:
        return fail("lookup changed the tree")
    return True


# ================================================================================ histories vs a dictionary model
HOPS = ["set", "setitem", "del", "delitem"]
HKEYS = ["p", "q", "p.p", "p.q", "q.p", "q.q", "p.q.p", "p.q.q", "p.", ".q"]


@obligation(
    pid="C16", name="histories", timeout=tiered(250, 1200),
    shards=lambda: [(f"ops={a},{b}" + (f",{c}" if TIER == "thorough" else ""), None, [dict(o1=a, o2=b, o3=c, **({"k3": "p"} if c == "none" else {}))]) for a in HOPS[:2] for b in HOPS for c in (HOPS if TIER == "thorough" else ["none"])],
    pre=lambda o1, o2, o3, k1, k2, k3: all(k in HKEYS for k in (k1, k2, k3)),
    drives=[SetMembersMixin.set_member, SetMembersMixin.__setitem__, DelMembersMixin.del_member, DelMembersMixin.__delitem__, GetMembersMixin.get_member],
    bounds={"start": "collection with one empty module 'p'", "operations": f"{tiered(2, 3)} from {HOPS}", "keys": HKEYS, "values": "fresh modules/classes named after the last segment"},
    value_symbolic=["the key of every operation"], selectors=["operation kinds (driver-bound)"], stubs=STUBS, must_cover=["model-agrees"],
    grid=lambda seed: [dict(o1="set", o2="del", o3="none", k1="p.q", k2="p.q", k3="p"), dict(o1="setitem", o2="set", o3="none", k1="p.q", k2="p.q.q", k3="p")],
)
def histories(o1: str, o2: str, o3: str, k1: str, k2: str, k3: str) -> bool:
    """Short histories on the collection agree, step by step, with a nested-dictionary reference model."""
    col = ModulesCollection()
    col.set_member("p", Module("p"))
    model = {"p": {}}
    for op, key in ((o1, k1), (o2, k2), (o3, k3)):
        if op == "none":
            continue
        parts = key.split(".")
        # reference model
        def model_apply():
            d = model
            for p in parts[:-1]:
                d = d[p]  # KeyError when missing
            if op in ("set", "setitem"):
                d[parts[-1]] = {}
            else:
                del d[parts[-1]]
        if "" in parts:
            continue  # empty segments: left open by the statement (only "fails cleanly or behaves like the chained lookup"), skipped here
        try:
            if op in ("set", "setitem"):
                value = Class(parts[-1]) if len(parts) > 1 else Module(parts[-1])
                (col.set_member if op == "set" else col.__setitem__)(key, value)
            else:
                (col.del_member if op == "del" else col.__delitem__)(key)
            ok = True
        except Exception:  # noqa: BLE001  (which error is raised for a missing member is not part of the statement)
            ok = False
        try:
            model_apply()
            mok = True
        except KeyError:
            mok = False
        if ok != mok:
            return fail(f"{op}({key!r}): real {'succeeds' if ok else 'raises'}, model {'succeeds' if mok else 'raises KeyError'}")

        def same(o, d):
            if set(o.members.keys()) != set(d.keys()):
                return False
            return all(same(o.members[k], d[k]) for k in d)

        if not same(col, model):
            return fail(f"after {op}({key!r}) the tree differs from the dictionary model")
    cover("model-agrees")
    return True


# ================================================================================ retargeting an alias
WHICH = ["fresh parentless alias", "alias m.a (unresolved)", "alias m.a (resolved)"]
NEW_TARGETS = ["itself", "object at the alias's own path", "m.f", "m.C", "n.g"]


@obligation(
    pid="C16", name="retarget", timeout=tiered(200, 600),
    shards=lambda: [(f"alias={w}", None, [dict(which=w)]) for w in WHICH],
    pre=lambda which, target: 0 <= target < len(NEW_TARGETS),
    drives=[Alias.target.fset, prop(Alias, "target"), prop(Alias, "final_target")],
    bounds={"alias": WHICH, "new target": NEW_TARGETS}, value_symbolic=["which object the alias is pointed at"], selectors=["which alias (driver-bound)"], stubs=STUBS,
    must_cover=["self-target-refused", "retargeted"],
    grid=lambda seed: [dict(which=w, target=t) for w in WHICH for t in range(len(NEW_TARGETS))],
)
def retarget(which: str, target: int) -> bool:
    """`alias.target = value` never makes an alias target itself; a successful retargeting registers the alias on its new target."""
    col, m, n, c = build(which == WHICH[2], False, False)
    al = Alias("a", "m.f", lineno=30, endlineno=30) if which == WHICH[0] else m.members["a"]
    if target == 0:
        value = al
    elif target == 1:
        value = Function("a", lineno=40, endlineno=41)
        value.parent = m  # path m.a, the path the (tree) alias has / a parentless alias named a would get in m
    elif target == 2:
        value = m.members["f"]
    elif target == 3:
        value = c
    else:
        value = n.members["g"]
    try:
        al.target = value
        raised = False
    except CyclicAliasError:
        raised = True
    except AttributeError:
        raised = "attr"  # a parentless alias has no path: the guard cannot even be evaluated
    if target == 0 or (target == 1 and which != WHICH[0]):
        if raised is True:
            cover("self-target-refused")
            return True
        # not refused: at least the alias must not end up targeting itself
        if al._target is al:
            return fail(f"{which}: alias.target = {NEW_TARGETS[target]} left the alias targeting itself")
        return fail(f"{which}: alias.target = {NEW_TARGETS[target]} was not refused with CyclicAliasError (raised={raised})") if raised is False else True
    if raised is True:
        return fail(f"{which}: retargeting to {NEW_TARGETS[target]} refused")
    if raised == "attr":
        return al._target is not al or fail("alias targets itself after a failed retargeting")
    cover("retargeted")
    if al._target is not value:
        return fail("target not set")
    if al.parent is not None and value.aliases.get(al.path) is not al:
        return fail("retargeted alias is not registered among its new target's aliases under its current path")
    return True


# ================================================================================ replacing a module by its stubs (or the reverse) while aliases point at it
@obligation(
    pid="C16", name="module_replacement", timeout=tiered(120, 300),
    pre=lambda py_first, resolved, via: via == 0,  # aliases to MEMBERS of the replaced module are outside the statement ("aliases that pointed at an object replaced ...")
    drives=[SetMembersMixin.set_member, prop(Alias, "target")],
    bounds={"tree": "package pkg with module mod (mod.py) and a second module other holding an alias a -> pkg.mod (optionally also b -> pkg.mod.f)", "operation": "pkg.set_member('mod', <the module built from mod.pyi>) - or the two files in the opposite order",
            "alias": "already resolved or not"},
    value_symbolic=["py_first (which file is in the tree first)", "resolved (was the alias already resolved)", "via (alias to the module or to a function in it)"], stubs=STUBS,
    must_cover=["alias-follows-the-module-that-stays"],
    grid=lambda seed: [dict(py_first=p, resolved=r, via=0) for p in (False, True) for r in (False, True)],
)
def module_replacement(py_first: bool, resolved: bool, via: int) -> bool:
    """When the module built from the .pyi meets the module built from the .py through set_member (either order), the runtime module stays in
    the tree (stubs merged into it) and every alias that pointed at the module (or into it) targets the object that is in the tree."""
    from vlib.stubs import realize_value

    py_first, resolved, via = realize_value(py_first), realize_value(resolved), realize_value(via)
    from harness.C08_json import _native

    def run():
        col = ModulesCollection()
        pkg = Module("pkg", filepath=Path("/x/pkg/__init__.py"))
        col.set_member("pkg", pkg)
        rt = Module("mod", filepath=Path("/x/pkg/mod.py"))
        rt.set_member("f", Function("f", lineno=1, endlineno=2))
        st = Module("mod", filepath=Path("/x/pkg/mod.pyi"))
        st.set_member("f", Function("f", lineno=1, endlineno=1))
        other = Module("other", filepath=Path("/x/pkg/other.py"))
        pkg.set_member("other", other)
        al = Alias("a", "pkg.mod" if via == 0 else "pkg.mod.f", lineno=1, endlineno=1)
        other.set_member("a", al)
        first, second = (rt, st) if py_first else (st, rt)
        pkg.set_member("mod", first)
        if resolved:
            al.target  # noqa: B018  (resolves the alias against the module that is in the tree now)
        pkg.set_member("mod", second)
        if not invariants(col):
            return OB_LAST()
        in_tree = col.get_member("pkg.mod")
        want = in_tree if via == 0 else in_tree.members["f"]
        try:
            got = al.target
        except (AliasResolutionError, CyclicAliasError) as e:
            return f"alias no longer resolves after the replacement: {type(e).__name__}"
        if got is not want:
            return f"alias pkg.other.a targets an object that is not in the tree (files met {'py then pyi' if py_first else 'pyi then py'}, alias {'already resolved' if resolved else 'unresolved'}): {got!r} from {getattr(got, 'filepath', None)} instead of the {want.kind.value} at {want.path}"
        return None

    err = _native(run)
    if err:
        return fail(err)
    cover("alias-follows-the-module-that-stays")
    return True


def OB_LAST():
    from vlib import ob as _OB

    return "; ".join(_OB.LAST_FAIL[-1:]) or "tree invariants violated"
