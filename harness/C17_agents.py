"""C17 — static and dynamic analysis agree on the API skeleton (engine X as case splitter, REDUCED claim).

Nothing symbolic survives the import boundary, so this check is solver-driven CASE ANALYSIS over a bounded structural model of a
package (like C18): the solver chooses, per case, the signature shape of a function (segment lengths, defaults, variadics), the
decorator of a method, docstring presence bits, the inheritance and the import form; the case is rendered to a real package in a
scratch directory, loaded by the real static agent (GriffeLoader(allow_inspection=False)) and by the real dynamic agent
(GriffeLoader(force_inspection=True), i.e. CPython really imports it) and the two skeletons are compared:
member names and kinds at every level, parameter names / kinds / required-ness, base classes (canonical paths), docstrings of
modules, classes and functions, imported classes / functions / modules as aliases with the same final targets.
Differences the statement allows are not compared: line numbers, dunder attributes other than a written __init__, instance
attributes assigned in __init__, attribute docstrings and values, the origin of imported plain values (alias vs attribute), labels.
The oracle for signatures is additionally CPython itself (inspect.signature of the imported function).
"""
from __future__ import annotations

import inspect as _inspect
import os
import shutil
import sys
import tempfile

from _griffe.agents.inspector import Inspector, _convert_parameter
from _griffe.agents.nodes.runtime import ObjectNode
from _griffe.agents.visitor import Visitor
from _griffe.exceptions import AliasResolutionError, CyclicAliasError
from _griffe.loader import GriffeLoader
from harness.C02_signatures import _render, _spec
from vlib.ob import cover, fail, obligation, tiered, prop
from vlib.stubs import _is_tracing, realize_value, silence_logging

STUBS = silence_logging()
_COUNTER = [0]
METHOD_KINDS = ["plain", "staticmethod", "classmethod", "property", "functools.cached_property", "async", "functools.cache", "async classmethod", "async staticmethod"]
CHILD_BASES = ["none", "Base", "imported", "two"]
IMPORT_FORMS = ["from PKG.a import", "from .a import", "import PKG.a as aa", "from PKG import a", "from . import a"]


def _sig_text(npo, na, nd, nk, kmask, vararg, kwarg):
    spec = _spec(npo, na, nd, nk, kmask, 0, vararg, kwarg)
    head = _render(spec, False, False, False).strip()  # "def f(...): ..."
    return head[len("def f") : head.rindex(":")], spec


def _package(npo, na, nd, nk, kmask, vararg, kwarg, mkind, docs, child_base, import_form, nested):
    """-> {relative file: source} with PKG standing for the package name"""
    params, spec = _sig_text(npo, na, nd, nk, kmask, vararg, kwarg)
    d_mod, d_fn, d_cls, d_meth = [bool((docs >> i) & 1) for i in range(4)]
    mk = METHOD_KINDS[mkind]
    deco = {"plain": "", "async": "", "staticmethod": "    @staticmethod\n", "classmethod": "    @classmethod\n", "property": "    @property\n",
            "functools.cached_property": "    @functools.cached_property\n", "functools.cache": "    @functools.cache\n",
            "async classmethod": "    @classmethod\n", "async staticmethod": "    @staticmethod\n"}[mk]
    first = {"staticmethod": "", "classmethod": "cls", "async classmethod": "cls", "async staticmethod": ""}.get(mk, "self")
    extra = "" if mk in ("property", "functools.cached_property") else ", x, y=0"
    mparams = (first + extra).lstrip(", ")
    a = ('"""Module a."""\n' if d_mod else "") + "import functools\n\nCONST = 1\n\n\n"
    a += f"def f{params}:\n" + ('    """F doc."""\n' if d_fn else "    pass\n") + "\n\n"
    a += "class Base:\n" + ('    """Base doc."""\n' if d_cls else "") + "    attr = 0\n\n    def __init__(self, v=None):\n        self.inst = v\n\n"
    a += deco + ("    async def " if mk.startswith("async") else "    def ") + f"m({mparams}):\n" + ('        """M doc."""\n' if d_meth else "        return None\n")
    if nested:
        a += "\n    class Inner:\n" + ('        """Inner doc."""\n' if d_cls else "") + "        def im(self, q):\n            return q\n"
    b = ('"""Module b."""\n' if d_mod else "")
    form = IMPORT_FORMS[import_form]
    if form.endswith("import"):
        b += form + " Base, f, CONST\n"
        base_ref, fn_ref = "Base", "f"
    elif form == "import PKG.a as aa":
        b += form + "\n"
        base_ref, fn_ref = "aa.Base", "aa.f"
    else:
        b += form + "\n"
        base_ref, fn_ref = "a.Base", "a.f"
    b += "\n\nclass Other:\n    def o(self):\n        return 0\n\n\n"
    bases = {"none": "", "Base": f"({base_ref})", "imported": f"({base_ref})", "two": f"({base_ref}, Other)"}[CHILD_BASES[child_base]]
    b += f"class Child{bases}:\n" + ('    """Child doc."""\n' if d_cls else "") + "    def extra(self, z=1):\n        return z\n"
    # the package also binds its direct submodules under other names (both import spellings)
    init = ('"""Top."""\n' if d_mod else "") + "from PKG.b import Child\nfrom PKG import a as h\nimport PKG.b as s\n"
    return {"__init__.py": init, "a.py": a, "b.py": b}, spec


def _skeleton(o, top):
    if o.is_alias:
        try:
            t = o.final_target.path
        except (AliasResolutionError, CyclicAliasError):
            t = o.target_path
        return ["alias", t.replace(top, "PKG")]
    row = [o.kind.value, None if (o.is_attribute or not o.docstring) else o.docstring.value]
    if o.is_function:
        row.append([(p.name, p.kind.value, p.required) for p in o.parameters])
    if o.is_class:
        row.append([(b if isinstance(b, str) else b.canonical_path).replace(top, "PKG") for b in o.bases])
    if not o.is_attribute and not o.is_function:
        mem = {}
        for n, m in o.members.items():
            if n.startswith("__") and n != "__init__":
                continue  # interpreter-provided dunder attributes
            mem[n] = _skeleton(m, top)
        row.append(mem)
    return row


def _diff(a, b, path="PKG"):
    out = []
    if isinstance(a, list) and isinstance(b, list) and a and b and isinstance(a[-1], dict) and isinstance(b[-1], dict):
        if a[:-1] != b[:-1]:
            out.append(f"{path}: static {a[:-1]} / dynamic {b[:-1]}")
        for k in sorted(set(a[-1]) | set(b[-1])):
            if k not in a[-1]:
                out.append(f"{path}.{k}: only found by the dynamic agent ({b[-1][k][0]})")
            elif k not in b[-1]:
                out.append(f"{path}.{k}: only found by the static agent ({a[-1][k][0]})")
            else:
                out += _diff(a[-1][k], b[-1][k], path + "." + k)
    elif a != b:
        out.append(f"{path}: static {a} / dynamic {b}")
    return out


def _allowed(line):
    """Differences confined to what only one agent can know (the statement's list)."""
    if ".inst:" in line and "only found by the static agent" in line:
        return True  # instance attribute assigned in __init__
    if ".CONST:" in line and "alias" in line and "attribute" in line and line.startswith("PKG.b"):
        return True  # the origin of an imported plain value
    if ".functools:" in line or ".aa:" in line and False:
        return False
    return False


def _case(args):
    npo, na, nd, nk, kmask, vararg, kwarg, mkind, docs, child_base, import_form, nested = args
    files, spec = _package(*args)
    _COUNTER[0] += 1
    top = f"zq{os.getpid()}x{_COUNTER[0]}"
    d = tempfile.mkdtemp(prefix="verif_c17_")
    try:
        for rel, src in files.items():
            p = os.path.join(d, top, rel)
            os.makedirs(os.path.dirname(p), exist_ok=True)
            with open(p, "w") as fh:
                fh.write(src.replace("PKG", top))
        st = GriffeLoader(search_paths=[d], allow_inspection=False)
        s = st.load(top)
        st.resolve_aliases(implicit=True)
        dy = GriffeLoader(search_paths=[d], force_inspection=True)
        y = dy.load(top)
        dy.resolve_aliases(implicit=True)
        diffs = [x for x in _diff(_skeleton(s, top), _skeleton(y, top)) if not _allowed(x)]
        # CPython's own view of the function's signature (the statement: "as CPython binds them")
        fobj = sys.modules[top + ".a"].f
        want = [(p.name, {0: "positional-only", 1: "positional or keyword", 2: "variadic positional", 3: "keyword-only", 4: "variadic keyword"}[int(p.kind)],
                 p.default is p.empty and int(p.kind) not in (2, 4)) for p in _inspect.signature(fobj).parameters.values()]
        for agent, mod in (("static", s), ("dynamic", y)):
            got = [(p.name, p.kind.value, p.required) for p in mod["a.f"].parameters]
            if got != want:
                diffs.append(f"PKG.a.f ({agent} agent): parameters {got}, CPython binds {want}")
        return diffs, files
    finally:
        shutil.rmtree(d, ignore_errors=True)
        for k in [k for k in sys.modules if k == top or k.startswith(top + ".")]:
            del sys.modules[k]


SIG_SHAPES = [(npo, na, nd, nk, kmask, va, kw) for npo in (0, 1) for na in range(0, tiered(2, 3)) for nd in range(0, npo + na + 1) for nk in (0, 1, tiered(1, 2)) for kmask in range(2 ** nk)
              for va in (False, True) for kw in (False, True)]
SIG_SHAPES = sorted(set(SIG_SHAPES))


def _pre(mkind, child_base, import_form, sig, docs, nested):
    if not (0 <= sig < len(SIG_SHAPES) and 0 <= docs < 16):
        return False
    if tiered(True, False):
        # quick: the dimensions do not interact, so the full list of signature shapes is combined with ONE class/import context,
        # and every class/import context with 4 signature shapes x 4 docstring patterns; thorough: the full product
        return (sig < 4 and docs in (15, 0, 5, 10)) or (mkind == 0 and child_base == 1 and import_form == 0 and docs == 15)
    return True


@obligation(
    pid="C17", name="agents_agree", timeout=tiered(280, 2400), path_timeout=120.0,
    shards=lambda: [(f"method={METHOD_KINDS[m]},child-bases={CHILD_BASES[c]}", None, [dict(mkind=m, child_base=c, import_form=i) for i in range(len(IMPORT_FORMS))]) for m in range(len(METHOD_KINDS)) for c in range(len(CHILD_BASES))],
    pre=_pre,
    drives=[Visitor.visit_functiondef, Visitor.visit_classdef, Visitor.handle_function, Inspector.inspect_module, Inspector.inspect_class, Inspector.handle_function, Inspector.handle_attribute, Inspector.generic_inspect,
            _convert_parameter, prop(ObjectNode, "kind"), prop(ObjectNode, "alias_target_path")],
    bounds={"package": "PKG/{__init__.py: from PKG.b import Child; from PKG import a as h; import PKG.b as s; a.py: CONST, f(<signature>), class Base{attr, __init__ (instance attribute), m (<method kind>), optional nested class Inner}; b.py: <import form> + class Other + class Child(<bases>)}",
            "signature of f": f"{len(SIG_SHAPES)} shapes: positional-only 0..1, positional-or-keyword 0..{tiered(1, 2)}, defaults 0..all, keyword-only 0..{tiered(1, 2)} with every default mask, *args / **kwargs",
            "method kind": METHOD_KINDS, "bases of Child": CHILD_BASES, "import form in b": IMPORT_FORMS, "docstrings": "16 presence patterns (module, function, class, method)", "nested class": "present or not"},
    value_symbolic=["sig: index of the signature shape", "docs: docstring presence bits", "nested"], selectors=["method kind, bases of Child, import form (driver-bound)"],
    stubs=STUBS + ["none on the code under test: real files in a scratch directory, the static loader and the inspecting loader (CPython imports the package); the solver's choices are realised before the run"],
    assumptions=["solver-driven case analysis: nothing symbolic survives the import boundary; the engine certifies that every case of the bounded structural model was run"],
    must_cover=["agents-agree", "alias-same-final-target"],
    grid=lambda seed: [dict(mkind=m, child_base=c, import_form=i, sig=s, docs=15, nested=True) for m in (0, 2, 3) for c in (1, 3) for i in (0, 2, 4) for s in (0, len(SIG_SHAPES) - 1)],
)
def agents_agree(mkind: int, child_base: int, import_form: int, sig: int, docs: int, nested: bool) -> bool:
    """Static loading and runtime inspection of the same package give the same skeleton (and the function's parameters are what CPython binds)."""
    sig, docs, nested = realize_value(sig), realize_value(docs), realize_value(nested)

    def run():
        diffs, files = _case((*SIG_SHAPES[sig], mkind, docs, child_base, import_form, nested))
        if diffs:
            return fail(f"method kind {METHOD_KINDS[mkind]}, Child bases {CHILD_BASES[child_base]}, import form {IMPORT_FORMS[import_form]!r}, f{_sig_text(*SIG_SHAPES[sig])[0]}: " + " | ".join(diffs[:4])
                        + f" | sources: {files}")
        cover("agents-agree")
        cover("alias-same-final-target")
        return True

    if _is_tracing():
        from crosshair.tracers import NoTracing

        with NoTracing():
            return run()
    return run()
