"""C18 — synthesised dataclass constructors equal the ones CPython generates (engine X as case-splitter + native oracle).

The dataclass definitions are *programs*: every input (field form, names, decorator arguments, hierarchy shape) is a finite-domain
choice. CrossHair/z3 enumerates the feasible choices (solver-decided exhaustion of the bounded space, preconditions as constraints);
each choice is rendered to source, loaded by griffe (real Visitor + the real DataclassesExtension) and executed by CPython with
the real `dataclasses` module: inspect.signature(cls.__init__) is the oracle - no reference model.
"""
from __future__ import annotations

import inspect
from pathlib import Path

import _griffe.extensions.dataclasses as DC
from _griffe.agents.visitor import visit
from _griffe.collections import LinesCollection, ModulesCollection
from _griffe.extensions.base import Extensions
from vlib.ob import TIER, HarnessDefect, cover, fail, obligation, tiered
from vlib.stubs import plain_error_messages, realize_value, silence_logging

STUBS = silence_logging() + plain_error_messages()

FORMS = ["plain", "default", "field_default", "field_init_false", "field_kw_only", "field_factory", "classvar", "initvar", "kw_only_marker", "property"]
CHILD_FORMS = tiered(["plain", "default", "field_kw_only", "field_init_false", "kw_only_marker"], FORMS)
DECOS = ["", "(init=False)", "(kw_only=True)", "(init=True, kw_only=False)"]
SHAPES = ["single", "dataclass_child", "plain_child", "handwritten_init", "not_a_dataclass", "three_levels", "plain_middle", "nested"]


def field_line(name, form):
    return {
        "plain": f"    {name}: int",
        "default": f"    {name}: int = 0",
        "field_default": f"    {name}: int = field(default=1)",
        "field_init_false": f"    {name}: int = field(init=False, default=2)",
        "field_kw_only": f"    {name}: int = field(kw_only=True)",
        "field_factory": f"    {name}: list = field(default_factory=list)",
        "classvar": f"    {name}: ClassVar[int] = 3",
        "initvar": f"    {name}: InitVar[int]",
        "kw_only_marker": "    _: KW_ONLY",
        "property": f"    @property\n    def {name}(self) -> int:\n        return 0",
    }[form]


def render(shape, deco, cdeco, f1, f2, g1, g1name, g2):
    src = ["from dataclasses import dataclass, field, KW_ONLY, InitVar", "from typing import ClassVar", ""]
    if shape == "not_a_dataclass":
        src += ["class Base:", field_line("a", f1), field_line("b", f2)]
        return "\n".join(src) + "\n", "Base"
    if shape == "nested":
        # the dataclass is nested in a class that has a hand-written __init__ of its own
        src += ["class Outer:", "    def __init__(self, q): ...", ""]
        src += ["    " + ln for ln in "\n".join([f"@dataclass{deco}", "class Base:", field_line("a", f1), field_line("b", f2)]).split("\n")]
        return "\n".join(src) + "\n", "Outer.Base"
    src += [f"@dataclass{deco}", "class Base:", field_line("a", f1), field_line("b", f2)]
    if shape == "plain_middle":
        # dataclass <- undecorated class with annotated attributes (NOT fields) <- dataclass
        src += ["", "class Child(Base):", "    c: float = 1.0", "    z = 0", "", "@dataclass", "class Leaf(Child):", "    e: int = 9"]
        return "\n".join(src) + "\n", "Leaf"
    if shape == "handwritten_init":
        src += ["    def __init__(self, x, /, y=0): ..."]
    last = "Base"
    if shape in ("dataclass_child", "three_levels"):
        src += ["", f"@dataclass{cdeco}", "class Child(Base):", field_line(g1name, g1), field_line("d", g2)]
        last = "Child"
    if shape == "plain_child":
        src += ["", "class Child(Base):", "    z = 0"]
        last = "Child"
    if shape == "three_levels":
        src += ["", "@dataclass", "class Leaf(Child):", "    e: int = 9"]
        last = "Leaf"
    return "\n".join(src) + "\n", last


def cpython_view(src, names):
    import dataclasses
    import sys
    import types

    module = types.ModuleType("verif_c18_m")
    sys.modules["verif_c18_m"] = module  # dataclasses looks the defining module up in sys.modules
    ns = module.__dict__
    try:
        exec(compile(src, "m.py", "exec"), ns)  # noqa: S102
    except (TypeError, ValueError, NameError):
        return None  # CPython rejects the definition (e.g. non-default argument follows default argument): outside the property
    finally:
        sys.modules.pop("verif_c18_m", None)
    out = {}

    for n in names:
        cls = ns[n.split(".")[0]]
        for part in n.split(".")[1:]:
            cls = getattr(cls, part)
        own_init = "__init__" in cls.__dict__
        sig = inspect.signature(cls.__init__) if cls.__init__ is not object.__init__ else None
        params = None if sig is None else [(p.name, p.kind.name.lower(), p.default is inspect.Parameter.empty) for p in sig.parameters.values()]
        out[n] = dict(params=params, is_dataclass=dataclasses.is_dataclass(cls), own_init=own_init)
    return out


def griffe_view(src, names):
    ext = Extensions(DC.DataclassesExtension())
    col, lc = ModulesCollection(), LinesCollection()
    mod = visit("m", Path("m.py"), src, extensions=ext, lines_collection=lc, modules_collection=col)
    col.set_member("m", mod)
    ext.call("on_package_loaded", pkg=mod, loader=None)
    out = {}
    for n in names:
        cls = mod[n]
        init = cls.members.get("__init__")
        params = None if init is None else [(p.name, p.kind.name, p.required) for p in init.parameters]
        inherited = None
        if init is None:
            try:
                ii = cls.inherited_members.get("__init__")
                inherited = None if ii is None else [(p.name, p.kind.name, p.required) for p in ii.parameters]
            except Exception:  # noqa: BLE001
                inherited = None
        out[n] = dict(params=params, inherited=inherited, labelled="dataclass" in cls.labels, lineno=None if init is None else init.lineno)
    return out


def compare(shape, deco, cdeco, f1, f2, g1, g1name, g2):
    src, last = render(shape, deco, cdeco, f1, f2, g1, g1name, g2)
    names = ["Base"] + (["Child"] if shape in ("dataclass_child", "plain_child", "three_levels", "plain_middle") else []) + (["Leaf"] if shape in ("three_levels", "plain_middle") else [])
    if shape == "nested":
        names = ["Outer.Base"]
    want = cpython_view(src, names)
    if want is None:
        return "rejected", None
    got = griffe_view(src, names)
    for n in names:
        w, g = want[n], got[n]
        if shape == "handwritten_init" and n == "Base":
            if g["params"] != [("self", "positional_only", True), ("x", "positional_only", True), ("y", "positional_or_keyword", False)]:
                return "fail", f"hand-written __init__ of {n} replaced: {g['params']}\n{src}"
            continue
        if not w["is_dataclass"]:
            if g["params"] is not None and g["lineno"] == 0:
                return "fail", f"{n} is not a dataclass but got a synthesised __init__ {g['params']}\n{src}"
            continue
        if not g["labelled"] and n != "Base":
            return "fail", f"{n} inherits a dataclass but is not labelled 'dataclass'\n{src}"
        if w["own_init"]:
            # the dataclass decorator generated an __init__ on this very class
            if g["params"] != w["params"]:
                return "fail", f"{n}.__init__: griffe {g['params']} != dataclasses {w['params']}\n{src}"
        else:
            # no __init__ generated here (init=False, or a plain subclass): the one found through the MRO must match
            eff = g["params"] if g["params"] is not None else g["inherited"]
            if w["params"] is not None and eff is not None and eff != w["params"]:
                return "fail", f"{n}: effective __init__ {eff} != CPython's {w['params']}\n{src}"
            if g["params"] is not None and g["lineno"] == 0 and w["params"] != g["params"]:
                return "fail", f"{n}: synthesised __init__ {g['params']} although CPython generates none here (effective: {w['params']})\n{src}"
    return "ok", None


def override_gap(base_form, child_form):
    """Known-finding region: a Child field redefines a Base field with a form that changes whether / how the field takes part in __init__."""
    if child_form in ("classvar", "field_init_false"):
        return True
    if base_form in ("classvar", "field_init_false"):
        return child_form in ("default", "field_default", "field_factory", "field_kw_only", "initvar", "plain")
    if base_form in ("default", "field_default"):
        return child_form in ("plain", "initvar")
    if base_form == "property":
        return child_form in ("plain", "initvar")
    return False


def _cases():
    out = []
    for shape in SHAPES:
        for deco in (DECOS if shape in ("single", "nested") else tiered(["", "(kw_only=True)", "(init=False)"], DECOS) if shape == "dataclass_child" else DECOS[:1]):
            for cdeco in (DECOS[:3] if shape == "dataclass_child" else DECOS[:1]):
                out.append(dict(shape=shape, deco=deco, cdeco=cdeco))
    return out


@obligation(
    pid="C18", name="dataclass_init", timeout=tiered(280, 1800),
    pre=lambda shape, deco, cdeco, f1, f2, g1, g1n, g2: 0 <= f1 < len(FORMS) and 0 <= f2 < len(FORMS) and 0 <= g1 < len(CHILD_FORMS) and 0 <= g1n <= 2 and 0 <= g2 < tiered(2, 3),
    shards=lambda: [(f"{c}", None, [dict(c, g1=0, g1n=0, g2=0)]) for c in _cases() if c["shape"] not in ("dataclass_child", "three_levels")]
    + [(f"{c},b-form={FORMS[f2]},child-field-name={'abc'[g1n]}", None, [dict(c, f2=f2, g1n=g1n, g2=g2) for g2 in range(tiered(2, 3))])
       for c in _cases() if c["shape"] in ("dataclass_child", "three_levels") for f2 in range(len(FORMS)) for g1n in range(3)],
    drives=[DC._set_dataclass_init, DC._dataclass_parameters, DC._reorder_parameters, DC._field_arguments, DC._dataclass_arguments, DC._expr_args, DC._del_members_annotated_as_initvar, DC._apply_recursively],
    bounds={"hierarchy": SHAPES, "decorator arguments": DECOS, "Base fields": f"a: any of {FORMS}; b: one of {FORMS}", "Child fields": f"<a|b|c>: one of {CHILD_FORMS}; d: " + tiered("plain/default", "plain/default/field(default=...)")},
    value_symbolic=["form of every field (finite-domain ints)", "name of the first Child field (overriding a Base field or not)"],
    selectors=["hierarchy shape, decorator arguments of Base and Child (driver-bound)"],
    stubs=STUBS + ["the chosen values are realised at entry: griffe and CPython both run on the rendered source (compile()/exec are C boundaries)"],
    assumptions=["the oracle is CPython's own dataclasses module executing the same source; definitions CPython rejects are outside the property"],
    must_cover=["ok", "rejected", "kw-only-reordered"],
    grid=lambda seed: [dict(shape=s, deco="", cdeco="", f1=a, f2=b, g1=0, g1n=0, g2=0) for s in ("single", "plain_child", "handwritten_init", "not_a_dataclass") for a in range(len(FORMS)) for b in (0, 1)],
)
def dataclass_init(shape: str, deco: str, cdeco: str, f1: int, f2: int, g1: int, g1n: int, g2: int) -> bool:
    """__init__ parameters (names, order, kinds, required-ness) == inspect.signature of the class CPython's dataclasses builds from the same source."""
    f1, f2, g1, g1n, g2 = (realize_value(v) for v in (f1, f2, g1, g1n, g2))
    from harness.C08_json import _native

    status, msg = _native(compare, shape, deco, cdeco, FORMS[f1], FORMS[f2], CHILD_FORMS[g1], "abc"[g1n], FORMS[g2])
    if status == "fail":
        return fail(msg)
    cover(status)
    if status == "ok" and ("kw_only" in FORMS[f1] or "kw_only" in deco or FORMS[f1] == "kw_only_marker"):
        cover("kw-only-reordered")
    return True
