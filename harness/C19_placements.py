"""C19 (second module) — the three stub placements give the same merged result (engine X as case splitter).

The real finder + loader + merger run on the in-memory file system of harness/C14_finder.py. One runtime module and its stubs
are written in each placement the statement names:
  sibling    : zpkg.py + zpkg.pyi next to each other on a search path (top-level module with a sibling stub file)
  in-package : zpkg/__init__.py + zpkg/mod.py with zpkg/__init__.pyi + zpkg/mod.pyi inside the package
  stubs-pkg  : zpkg/ (runtime only) and a separate zpkg-stubs/ package (same or another search path), find_stubs_package=True
Symbolic: the sort keys deciding in which order every directory lists its entries (so the .py and the .pyi are met in both
orders), which search path holds the stubs package, and the request (top-level name or a dotted object path).
Asserted on the module that holds the definitions: every clause of the statement (runtime members kept, annotations / returns /
overloads from the stubs, runtime docstring kept, stub-only member added with runtime=False, runtime-only member kept) and that
the observation is identical for all orders, requests and placements.
"""
from __future__ import annotations

from pathlib import Path

import _griffe.merger as MG
from _griffe.finder import ModuleFinder
from _griffe.loader import GriffeLoader
from harness.C14_finder import FS, ROOT, STUBS as FS_STUBS, _install
from vlib.ob import cover, fail, obligation, tiered
from vlib.stubs import _is_tracing, realize_value

RUNTIME = '''"""Runtime module docstring."""
from typing import overload

RUNTIME_ONLY = 1
value = 2


def f(a, b=0, *args, c=None, **kwargs):
    """Runtime docstring of f."""
    return a


def g(x):
    return x


class K:
    """Runtime docstring of K."""

    attr = 0

    def k(self, p):
        """Runtime docstring of k."""
        return p


class Child(K):
    """Runtime docstring of Child (it only inherits k)."""
'''
STUB = '''from typing import overload

value: int
STUB_ONLY: str


def f(a: int, extra: bytes = ..., b: int = ..., *args: str, c: float | None = ..., **kwargs: bool) -> int: ...


@overload
def g(x: int) -> int: ...
@overload
def g(x: str) -> str: ...


class K:
    attr: int

    def k(self, p: int) -> str: ...
    def stub_method(self) -> None: ...


class Child(K):
    @overload
    def k(self, p: int) -> str: ...
    @overload
    def k(self, p: bytes) -> bytes: ...
'''
PLACEMENTS = ["sibling", "in-package", "stubs-pkg"]
FACADE = "facade"  # zpkg/__init__.py is `from _zpkg import *` (the griffe/_griffe layout), with zpkg/__init__.pyi next to it
REQUESTS = {"facade": ["zpkg", "zpkg", "zpkg", "zpkg"], "sibling": ["zpkg", "zpkg.f", "zpkg.K.k"], "in-package": ["zpkg", "zpkg.mod", "zpkg.mod.f", "zpkg.mod.K.k"], "stubs-pkg": ["zpkg", "zpkg.mod", "zpkg.mod.f", "zpkg.mod.K.k"]}


def _files(placement, stubs_sp):
    sp0, sp1 = ROOT + "/sp0", ROOT + "/sp1"
    files = {sp0 + "/other.txt": "", sp1 + "/other.txt": ""}
    if placement == FACADE:
        files[sp0 + "/_zpkg/__init__.py"] = RUNTIME
        files[sp0 + "/zpkg/__init__.py"] = "from _zpkg import *\n"
        files[sp0 + "/zpkg/__init__.pyi"] = STUB
    elif placement == "sibling":
        files[sp0 + "/zpkg.py"] = RUNTIME
        files[sp0 + "/zpkg.pyi"] = STUB
    elif placement == "in-package":
        files[sp0 + "/zpkg/__init__.py"] = ""
        files[sp0 + "/zpkg/__init__.pyi"] = ""
        files[sp0 + "/zpkg/mod.py"] = RUNTIME
        files[sp0 + "/zpkg/mod.pyi"] = STUB
    else:
        files[sp0 + "/zpkg/__init__.py"] = ""
        files[sp0 + "/zpkg/mod.py"] = RUNTIME
        sp = sp1 if stubs_sp else sp0
        files[sp + "/zpkg-stubs/__init__.pyi"] = ""
        files[sp + "/zpkg-stubs/mod.pyi"] = STUB
    return [sp0, sp1], files


def _observe(mod):
    def row(o):
        if o.is_alias:
            return ("alias", o.target_path)
        r = [o.kind.value, None if not o.docstring else o.docstring.value, o.runtime]
        if o.is_function:
            r.append([(p.name, str(p.annotation) if p.annotation is not None else None) for p in o.parameters])
            r.append(str(o.returns) if o.returns is not None else None)
            r.append(None if not o.overloads else [str(f.returns) for f in o.overloads])
        if o.is_attribute:
            r.append(str(o.annotation) if o.annotation is not None else None)
            r.append(str(o.value) if o.value is not None else None)
        r.append({n: row(m) for n, m in sorted(o.members.items())})
        return r

    return row(mod)


def _holder(loader, placement):
    top = loader.modules_collection["zpkg"]
    return top if placement in ("sibling", FACADE) else top["mod"]


def _run(placement, stubs_sp, request, keys):
    search_paths, files = _files(placement, stubs_sp)
    names = sorted(files)

    def order_of(p):
        below = [keys[i % len(keys)] for i, f in enumerate(names) if f == p or f.startswith(p + "/")]
        return (min(below) if below else 0, p)

    _install(files, order_of)
    loader = GriffeLoader(search_paths=search_paths, allow_inspection=False)
    loader.load(request, find_stubs_package=True)
    return _holder(loader, placement)


def _clauses(mod):
    """Every clause of the statement on the module that holds the definitions; '' or a failure text."""
    for name in ("RUNTIME_ONLY", "value", "f", "g", "K"):
        if name not in mod.members:
            return f"runtime member {name} lost"
    if mod.members["RUNTIME_ONLY"].runtime is not True:
        return "runtime-only member marked unavailable at runtime"
    f = mod.members["f"]
    if f.is_alias or not f.is_function:
        return "f is not a function after the merge"
    if [p.name for p in f.parameters] != ["a", "b", "args", "c", "kwargs"]:
        return f"runtime parameters of f changed: {[p.name for p in f.parameters]}"
    want = {"a": "int", "b": "int", "args": "str", "c": "float | None", "kwargs": "bool"}
    for p in f.parameters:
        if str(p.annotation) != want[p.name]:
            return f"annotation of parameter {p.name} of f is {p.annotation!s}, the stubs say {want[p.name]}"
    if str(f.returns) != "int":
        return f"return annotation of f is {f.returns!s}, the stubs say int"
    if not f.docstring or f.docstring.value != "Runtime docstring of f.":
        return "runtime docstring of f not kept"
    g = mod.members["g"]
    if not g.overloads or [str(o.returns) for o in g.overloads] != ["int", "str"]:
        return f"overloads of g not taken from the stubs: {g.overloads}"
    v = mod.members["value"]
    if str(v.annotation) != "int" or str(v.value) != "2":
        return f"attribute `value`: annotation {v.annotation!s} (stubs: int), value {v.value!s} (runtime: 2)"
    so = mod.members.get("STUB_ONLY")
    if so is None or so.runtime is not False:
        return "stub-only member STUB_ONLY missing or not marked runtime=False"
    k = mod.members["K"]
    if not k.docstring or k.docstring.value != "Runtime docstring of K.":
        return "runtime docstring of K not kept"
    kk = k.members["k"]
    if str(kk.returns) != "str" or str(kk.parameters["p"].annotation) != "int" or not kk.docstring:
        return "method K.k: types not from the stubs or docstring lost"
    if str(k.members["attr"].annotation) != "int":
        return "K.attr annotation not from the stubs"
    if kk.overloads:
        return f"K.k got an overload list ({[str(o.returns) for o in kk.overloads]}) although its own stub declares none (written through the inherited member of a subclass?)"
    if "Child" not in mod.members or mod.members["Child"].docstring is None:
        return "class Child lost or its runtime docstring dropped"
    sm = k.members.get("stub_method")
    if sm is None or sm.runtime is not False:
        return "stub-only method K.stub_method missing or not marked runtime=False"
    return ""


_BASE: dict = {}  # canonical observation per placement (independent of the symbolic inputs): computed once per process


def _facade_clauses(mod):
    """The facade gets its names from a wildcard import of the private sibling package: they exist at runtime (CPython binds them),
    so the stubs must not turn them into stub-only members; only what the stubs alone declare is flagged runtime=False."""
    for name in ("RUNTIME_ONLY", "value", "f", "g", "K", "Child"):
        mem = mod.members.get(name)
        if mem is None:
            return f"facade: runtime name {name} (bound by `from _zpkg import *`) is missing"
        if mem.runtime is False:
            return f"facade: {name} exists at runtime (CPython binds it through the wildcard import) but is flagged runtime=False"
        if not mem.is_alias or mem.target_path != "_zpkg." + name:
            return f"facade: {name} is no longer the alias to _zpkg.{name} the wildcard import creates ({'alias to ' + mem.target_path if mem.is_alias else mem.kind.value})"
    so = mod.members.get("STUB_ONLY")
    if so is None or so.runtime is not False:
        return "facade: stub-only member STUB_ONLY missing or not marked runtime=False"
    return ""


def _body(placement, stubs_sp, req, keys):
    request = REQUESTS[placement][req % len(REQUESTS[placement])]
    if placement == FACADE:
        mod = _run(placement, stubs_sp, request, keys)
        msg = _facade_clauses(mod)
        if msg:
            return fail(f"placement=facade order-keys={keys}: {msg}")
        cover("placement:facade")
        return True
    label = f"placement={placement} stubs-in-second-search-path={stubs_sp} request={request} order-keys={keys}"
    mod = _run(placement, stubs_sp, request, keys)
    msg = _clauses(mod)
    if msg:
        return fail(f"{label}: {msg}")
    obs = _observe(mod)
    # same result for the canonical order / top-level request, and for every placement
    for other in PLACEMENTS:
        if other not in _BASE:
            _BASE[other] = _observe(_run(other, False, "zpkg", [0, 0, 0]))
        base = _BASE[other]
        if base != obs:
            diff = [(a, b) for a, b in zip(str(base).split("], "), str(obs).split("], ")) if a != b][:2]
            return fail(f"{label}: merged result differs from placement={other} requested as 'zpkg' in sorted order: {diff}")
    cover("placement:" + placement)
    if len(set(keys)) > 1:
        cover("non-trivial-order")
    return True


@obligation(
    pid="C19", name="placements", timeout=tiered(280, 1200), path_timeout=120.0,
    shards=lambda: [(f"placement={p}", None, [dict(placement=p)]) for p in [*PLACEMENTS, FACADE]],
    pre=lambda placement, stubs_sp, req, k0, k1, k2: 0 <= req < 4 and all(0 <= k <= tiered(1, 2) for k in (k0, k1, k2)) and (placement == "stubs-pkg" or not stubs_sp) and (placement != FACADE or req == 0),
    drives=[ModuleFinder.find_spec, ModuleFinder.find_package, ModuleFinder.iter_submodules, GriffeLoader.load, GriffeLoader._load_package, GriffeLoader._load_submodule, MG.merge_stubs, MG._merge_function_stubs, MG._merge_stubs_members],
    bounds={"placements": PLACEMENTS, "requests": REQUESTS, "listing order": f"three sort keys 0..{tiered(1, 2)} distributed round-robin over the files (every relative order of mod.py / mod.pyi and of __init__.py / __init__.pyi)",
            "module": "one runtime module (attributes, functions with every parameter kind, a class with a method) and stubs with a stub-only parameter in the middle of a signature, overloads, stub-only members"},
    value_symbolic=["k0..k2 (enumeration order of every directory)", "stubs_sp (which search path holds the stubs package)", "req (which object path is requested)"], selectors=["placement (driver-bound)"],
    stubs=FS_STUBS, assumptions=["the symbolic inputs are realised (the engine forks over every feasible value) before the loader runs natively on the in-memory file system"],
    must_cover=["placement:sibling", "placement:in-package", "placement:stubs-pkg", "placement:facade", "non-trivial-order"],
    grid=lambda seed: [dict(placement=p, stubs_sp=(p == "stubs-pkg" and s), req=r, k0=a, k1=b, k2=1 - a) for p in PLACEMENTS for s in (False, True) for r in (0, 1, 3) for a, b in ((0, 1), (1, 0))]
    + [dict(placement=FACADE, stubs_sp=False, req=0, k0=a, k1=b, k2=0) for a, b in ((0, 1), (1, 0))],
    replay=lambda **kw: _replay(**kw),
)
def placements(placement: str, stubs_sp: bool, req: int, k0: int, k1: int, k2: int) -> bool:
    """Sibling .pyi, .pyi inside the package and a separate -stubs package give the same, correct merged module, for every listing order and request."""
    vals = [realize_value(v) for v in (stubs_sp, req, k0, k1, k2)]
    if _is_tracing():
        from crosshair.tracers import NoTracing

        with NoTracing():
            return _body(placement, vals[0], vals[1], vals[2:])
    return _body(placement, vals[0], vals[1], vals[2:])


_REAL = r'''
import json, os, sys
import _griffe.finder as F
import _griffe.loader as L
sps, request, placement, order = json.loads(sys.argv[1]), sys.argv[2], sys.argv[3], json.loads(sys.argv[5])
class OS:
    path = os.path
    def walk(self, top, topdown=True, followlinks=False):
        for root, dirs, files in os.walk(top, topdown=topdown, followlinks=followlinks):
            k = lambda n: tuple(order.get(os.path.join(root, n), [99, n]))
            dirs.sort(key=k); files.sort(key=k)
            yield root, dirs, files
    def __getattr__(self, n):
        return getattr(os, n)
F.os = OS()
loader = L.GriffeLoader(search_paths=sps, allow_inspection=False)
loader.load(request, find_stubs_package=True)
top = loader.modules_collection["zpkg"]
mod = top if placement in ("sibling", "facade") else top["mod"]
sys.path.insert(0, sys.argv[4])
import harness.C19_placements as H
print(json.dumps({"clauses": (H._facade_clauses(mod) if placement == "facade" else H._clauses(mod)), "observation": (None if placement == "facade" else H._observe(mod))}))
'''


def _real_run(placement, stubs_sp, request, keys):
    import json
    import os
    import shutil
    import subprocess
    import sys
    import tempfile

    search_paths, files = _files(placement, stubs_sp)
    names = sorted(files)
    tmp = tempfile.mkdtemp(prefix="c19_")
    try:
        for p, content in files.items():
            rp = tmp + p[len(ROOT):]
            os.makedirs(os.path.dirname(rp), exist_ok=True)
            with open(rp, "w") as f:
                f.write(content)
        _install(files)
        order = {}
        for d, kids in FS.children.items():
            for c in kids:
                p = d + "/" + c
                below = [keys[i % len(keys)] for i, f in enumerate(names) if f == p or f.startswith(p + "/")]
                order[tmp + p[len(ROOT):]] = [min(below) if below else 0, p]
        rsp = [tmp + sp[len(ROOT):] for sp in search_paths]
        here = os.path.dirname(os.path.dirname(os.path.abspath(__file__)))
        r = subprocess.run([sys.executable, "-c", _REAL, json.dumps(rsp), request, placement, here, json.dumps(order)], capture_output=True, text=True, cwd=tmp, timeout=120, env=dict(os.environ, PYTHONDONTWRITEBYTECODE="1"))
        if r.returncode != 0:
            return {"error": r.stderr[-1500:]}
        return json.loads(r.stdout.strip().splitlines()[-1])
    finally:
        shutil.rmtree(tmp, ignore_errors=True)


def _replay(placement, stubs_sp, req, k0, k1, k2):
    """Real files on a scratch directory, the real finder/loader/merger in a fresh interpreter; only the ORDER of os.walk's results is injected."""
    request = REQUESTS[placement][req % len(REQUESTS[placement])]
    res = _real_run(placement, stubs_sp, request, [k0, k1, k2])
    if "error" in res:
        return True, f"loading raised on the real directory: {res['error']}"
    if res["clauses"]:
        return True, "real directory: " + res["clauses"]
    if placement == FACADE:
        return False, "real directory: the facade clauses hold"
    for other in PLACEMENTS:
        base = _real_run(other, False, "zpkg", [0, 0, 0])
        if "error" in base or base["observation"] != res["observation"]:
            return True, f"real directory: merged result for placement={placement} request={request} differs from placement={other} requested as 'zpkg'"
    return False, "real directory: every clause holds and the merged result is the same for all placements"
