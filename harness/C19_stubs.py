"""C19 — merging stubs loses nothing and prefers stub types (engine X).

Two in-memory trees (runtime module m.py, stubs m.pyi). One member slot has a driver-bound kind on each side (function,
attribute, class, alias, absent - mismatches included); a class K with a method exists on both sides (recursion); which
docstrings / annotations / overload lists / extra members are present on which side is a solver-chosen bit vector. The merge
is reached through merge_stubs in both argument orders and through the implicit merge of set_member in both insertion orders.
"""
from __future__ import annotations

from pathlib import Path

import _griffe.merger as MG
from _griffe.collections import ModulesCollection
from _griffe.enumerations import ParameterKind as PK
from _griffe.merger import merge_stubs
from _griffe.mixins import SetMembersMixin
from _griffe.models import Alias, Attribute, Class, Docstring, Function, Module, Parameter, Parameters
from vlib.ob import TIER, cover, fail, obligation, tiered
from vlib.stubs import plain_error_messages, realize_value, silence_logging

STUBS = silence_logging() + plain_error_messages()
SIDE_KINDS = ["function", "attribute", "class", "alias", "absent"]
ROUTES = ["merge(runtime, stubs)", "merge(stubs, runtime)", "set_member: runtime first", "set_member: stubs first"]
NBITS = tiered(6, 8)


def mk_member(kind, side, doc, ann):
    """side: 'rt' or 'st' (values are tagged with the side so that the origin of every merged field is observable)."""
    d = Docstring(f"{side}-doc") if doc else None
    if kind == "function":
        ps = Parameters(Parameter("p", annotation=f"{side}_P" if ann else None, kind=PK.positional_or_keyword), Parameter(f"only_{side}", annotation=f"{side}_Q", kind=PK.keyword_only, default="0"),
                        Parameter("z", annotation=f"{side}_Z" if ann else None, kind=PK.keyword_only, default="0"))  # a shared parameter AFTER a side-only one
        return Function("a", parameters=ps, returns=f"{side}_R" if ann else None, docstring=d, lineno=1, endlineno=2)
    if kind == "attribute":
        return Attribute("a", annotation=f"{side}_A" if ann else None, value=f"{side}_value", docstring=d, lineno=1, endlineno=1)
    if kind == "class":
        c = Class("a", docstring=d, lineno=1, endlineno=3)
        c.set_member("inner", Attribute("inner", annotation=f"{side}_I" if ann else None, lineno=2, endlineno=2))
        return c
    if kind == "alias":
        return Alias("a", f"elsewhere.{side}_target", lineno=1, endlineno=1)
    return None


def build(side, kind, doc, ann, kdoc, extra, overloads):
    mod = Module("m", filepath=Path("/x/m.py" if side == "rt" else "/x/m.pyi"), docstring=Docstring(f"{side}-moddoc") if doc else None)
    mem = mk_member(kind, side, doc, ann)
    if mem is not None:
        mod.set_member("a", mem)
    k = Class("K", lineno=10, endlineno=20)
    mod.set_member("K", k)
    k.set_member("k", Function("k", parameters=Parameters(Parameter("self", kind=PK.positional_or_keyword)), returns=f"{side}_KR", docstring=Docstring(f"{side}-kdoc") if kdoc else None, lineno=11, endlineno=12))
    if extra:
        mod.set_member(f"only_{side}", Function(f"only_{side}", parameters=Parameters(), lineno=30, endlineno=31))
        k.set_member(f"konly_{side}", Attribute(f"konly_{side}", lineno=13, endlineno=13))
    if overloads and side == "st" and kind == "function":
        mod.overloads["a"] = [Function("a", parameters=Parameters(Parameter("p", annotation="int", kind=PK.positional_or_keyword)), returns="int"),
                              Function("a", parameters=Parameters(Parameter("p", annotation="str", kind=PK.positional_or_keyword)), returns="str")]
    return mod


def observe(mod):
    def row(o):
        if o.is_alias:
            return ("alias", o.target_path, o._target is not None, o.runtime)
        r = [o.kind.value, None if not o.docstring else o.docstring.value, o.runtime]
        if o.is_function:
            r.append([(p.name, p.annotation) for p in o.parameters])
            r.append(o.returns)
            r.append(None if not o.overloads else [f.returns for f in o.overloads])
        if o.is_attribute:
            r.append(o.annotation)
            r.append(o.value)
        r.append({n: row(m) for n, m in sorted(o.members.items())})
        return r
    return row(mod)


@obligation(
    pid="C19", name="merge", timeout=tiered(280, 1200),
    shards=lambda: [(f"runtime={rk},stubs={sk}", None, [dict(rt_kind=rk, st_kind=sk, route=r) for r in ROUTES]) for rk in SIDE_KINDS for sk in SIDE_KINDS],
    pre=lambda rt_kind, st_kind, route, bits: 0 <= bits < 2 ** NBITS,
    drives=[merge_stubs, MG._merge_module_stubs, MG._merge_class_stubs, MG._merge_function_stubs, MG._merge_attribute_stubs, MG._merge_stubs_docstring, MG._merge_stubs_overloads, MG._merge_stubs_members, SetMembersMixin.set_member],
    bounds={"member slot 'a'": f"kind on each side in {SIDE_KINDS} (all 25 pairs)", "class K{k()}": "on both sides", "bits": "runtime doc, stub doc, runtime annotations, stub annotations, K.k docs (2), extra members on each side, stub overloads",
            "routes": ROUTES},
    value_symbolic=["8-bit vector: which docstrings / annotations / extra members / overload lists exist on which side"], selectors=["kind of the slot on each side, merge route (driver-bound)"],
    stubs=STUBS, must_cover=["same-kind-merged", "kind-mismatch", "stub-only-added"],
    grid=lambda seed: [dict(rt_kind=a, st_kind=b, route=r, bits=x) for a in ("function", "attribute") for b in ("function", "alias", "absent") for r in ROUTES[:2] for x in (0, 2 ** NBITS - 1, 0b101010)],
)
def merge(rt_kind: str, st_kind: str, route: str, bits: int) -> bool:
    """No runtime member lost; types/overloads from the stubs for same-kind members; runtime docstring kept unless missing; stub-only members added with runtime=False; aliases untouched; no exception; same result for every route."""
    bits = realize_value(bits)
    from harness.C08_json import _native

    def run():
        b = [(bits >> i) & 1 == 1 for i in range(NBITS)]
        if NBITS == 8:
            rt_doc, st_doc, rt_ann, st_ann, extra, overloads, rt_kdoc, st_kdoc = b
        else:  # quick: the docstrings of K.k follow those of the slot
            rt_doc, st_doc, rt_ann, st_ann, extra, overloads = b
            rt_kdoc, st_kdoc = rt_doc, st_doc

        def fresh():
            return build("rt", rt_kind, rt_doc, rt_ann, rt_kdoc, extra, False), build("st", st_kind, st_doc, st_ann, st_kdoc, extra, overloads)

        def do(r):
            rt, st = fresh()
            # both files belong to a package that lives in a modules collection (as when loading from disk),
            # so that dereferencing an unresolvable alias raises AliasResolutionError
            col = ModulesCollection()
            pkg = Module("pkg", filepath=Path("/x/__init__.py"))
            col.set_member("pkg", pkg)
            rt.parent = st.parent = pkg  # the loader creates each module with its parent already set (Visitor(parent=...))
            if r in ROUTES[:2]:
                pkg.members["m"] = rt
                out = merge_stubs(rt, st) if r == ROUTES[0] else merge_stubs(st, rt)
            else:
                first, second = (rt, st) if r == ROUTES[2] else (st, rt)
                pkg.set_member("m", first)
                pkg.set_member("m", second)
                out = pkg.members["m"]
            return out, rt, st

        out, rt, st = do(route)
        if out is not rt:
            return "the merged module is not the runtime module"
        rt0, st0 = fresh()
        # every runtime member is kept
        for name in rt0.members:
            if name not in out.members:
                return f"runtime member {name} lost"
        for name in rt0.members["K"].members:
            if name not in out.members["K"].members:
                return f"runtime member K.{name} lost"
        a = out.members.get("a")
        if rt_kind != "absent":
            if rt_kind == "alias":
                if not a.is_alias or a.target_path != "elsewhere.rt_target" or a._target is not None:
                    return "runtime alias replaced or resolved by the merge"
            elif st_kind == rt_kind:
                cover("same-kind-merged")
                want_doc = "rt-doc" if rt_doc else ("st-doc" if st_doc else None)
                if (a.docstring.value if a.docstring else None) != want_doc:
                    return f"docstring of a: {a.docstring.value if a.docstring else None!r}, expected {want_doc!r}"
                if rt_kind == "function":
                    if a.returns != ("st_R" if st_ann else None):
                        return f"return annotation {a.returns!r} not taken from the stubs"
                    if a.parameters["p"].annotation != ("st_P" if st_ann else None):
                        return "parameter annotation not taken from the stubs"
                    if a.parameters["z"].annotation != ("st_Z" if st_ann else None):
                        return "annotation of a shared parameter that follows a stub-only parameter not taken from the stubs"
                    if [p.name for p in a.parameters] != ["p", "only_rt", "z"]:
                        return "runtime parameters changed"
                    got_ov = None if not a.overloads else [f.returns for f in a.overloads]
                    if got_ov != (["int", "str"] if overloads else None):
                        return f"overloads {got_ov}"
                if rt_kind == "attribute":
                    if a.annotation != ("st_A" if st_ann else None):
                        return f"attribute annotation {a.annotation!r} not taken from the stubs"
                    if a.value != "rt_value":
                        return "runtime value replaced"
                if rt_kind == "class":
                    if a.members["inner"].annotation != ("st_I" if st_ann else None):
                        return "nested attribute annotation not taken from the stubs"
            else:
                cover("kind-mismatch")
                if a.is_alias or a.kind.value != rt_kind:
                    return f"runtime member of kind {rt_kind} replaced by a stub member of kind {st_kind}"
                want_doc = "rt-doc" if rt_doc else None
                if (a.docstring.value if a.docstring else None) != want_doc:
                    return "docstring changed although kinds differ"
        elif st_kind != "absent":
            cover("stub-only-added")
            if a is None:
                return "stub-only member not added"
            if a.runtime is not False:
                return "stub-only member not marked as unavailable at runtime"
            if st_kind == "alias" and a._target is not None:
                return "stub alias resolved by the merge"
        # nested class: method types from the stubs, docstring rule, stub-only nested members
        k = out.members["K"].members["k"]
        if k.returns != "st_KR":
            return "K.k return annotation not taken from the stubs"
        want_kdoc = "rt-kdoc" if rt_kdoc else ("st-kdoc" if st_kdoc else None)
        if (k.docstring.value if k.docstring else None) != want_kdoc:
            return "K.k docstring"
        if extra:
            for holder, nm in ((out, "only_st"), (out.members["K"], "konly_st")):
                if nm not in holder.members or holder.members[nm].runtime is not False:
                    return f"stub-only member {nm} missing or not marked runtime=False"
            if out.members["only_rt"].runtime is not True:
                return "runtime-only member marked as unavailable at runtime"
        # same result whichever file is encountered first / whichever argument order
        base = observe(out)
        for r in ROUTES:
            if r != route and observe(do(r)[0]) != base:
                return f"result differs between '{route}' and '{r}'"
        return None

    err = _native(run)
    return err is None or fail(err)
