"""C20 — loading from Git leaves the repository and the file system untouched on every path (engine X + contract stub).

`tmp_worktree` and `load_git` run for real; `subprocess.run`, `TemporaryDirectory`, `shutil.which` and `load` are stubs. The git
stub is a CONTRACT MODEL of the four commands used, written from their documented behaviour:
  worktree add -b B L R   fails if branch B exists or ref R is unknown; otherwise creates B, registers worktree L (dir created)
  worktree remove [--force] L   fails if the worktree holds untracked/modified files, unless --force; else unregisters L, deletes the dir
  worktree prune          forgets worktrees whose directory no longer exists
  branch -D B             fails while B is checked out in a registered worktree
The fault schedule (unknown ref, pre-existing branch, outcome of the load, whether the load left files in the checkout - inspection
writes __pycache__ unless PYTHONDONTWRITEBYTECODE is set) is one solver-chosen integer; the ref is a symbolic string.
Replay of a counterexample builds a REAL repository in a scratch directory and runs the real load_git with the real git.
"""
from __future__ import annotations

import os
import shutil
import subprocess
import sys
import tempfile
from pathlib import Path

import _griffe.git as GIT
import _griffe.loader as L
from _griffe.exceptions import LoadingError
from _griffe.models import Module
from vlib.ob import TIER, HarnessDefect, cover, fail, obligation, tiered
from vlib.stubs import RealizingRe, plain_error_messages, realize_value, silence_logging

STUBS = silence_logging() + plain_error_messages()
GIT.re = RealizingRe()
STUBS.append("_griffe.git.re -> regex on the realised ref string")
OUTCOMES = ["ok", "LoadingError", "SyntaxError", "extension RuntimeError", "KeyboardInterrupt", "ImportError"]
EXC = {"LoadingError": LoadingError, "SyntaxError": SyntaxError, "extension RuntimeError": RuntimeError, "KeyboardInterrupt": KeyboardInterrupt, "ImportError": ImportError}


class FakeGit:
    def __init__(self, known_refs, branches):
        self.refs = set(known_refs)
        self.branches = set(branches)
        self.worktrees = {}  # location -> branch
        self.dirs = set()
        self.dirty = set()
        self.log = []

    def run(self, cmd, **kw):
        self.log.append(list(cmd))
        args = list(cmd)
        if args[:1] != ["git"]:
            raise HarnessDefect(f"unexpected subprocess {cmd}")
        if "-C" in args:
            i = args.index("-C")
            del args[i : i + 2]
        rc, err = 0, b""
        sub = args[1:]
        if sub[:2] == ["rev-parse", "--is-inside-work-tree"]:
            pass
        elif sub[:3] == ["worktree", "add", "-b"]:
            branch, loc, ref = sub[3], sub[4], sub[5]
            if branch in self.branches:
                rc, err = 128, b"fatal: a branch named '%s' already exists" % branch.encode()
            elif ref not in self.refs:
                rc, err = 128, b"fatal: invalid reference"
            else:
                self.branches.add(branch)
                self.worktrees[loc] = branch
                self.dirs.add(loc)
        elif sub[:2] == ["worktree", "remove"]:
            force = "--force" in sub or "-f" in sub
            loc = [x for x in sub[2:] if not x.startswith("-")][0]
            if loc not in self.worktrees:
                rc = 128
            elif loc in self.dirty and not force:
                rc, err = 128, b"fatal: contains modified or untracked files, use --force to delete it"
            else:
                del self.worktrees[loc]
                self.dirs.discard(loc)
                self.dirty.discard(loc)
        elif sub[:2] == ["worktree", "prune"]:
            for loc in [l for l in self.worktrees if l not in self.dirs]:
                del self.worktrees[loc]
        elif sub[:2] == ["branch", "-D"]:
            b = sub[2]
            if b in self.worktrees.values() or b not in self.branches:
                rc, err = 1, b"error: cannot delete branch checked out at ..."
            else:
                self.branches.discard(b)
        else:
            raise HarnessDefect(f"git command outside the contract model: {cmd}")
        if kw.get("check") and rc:
            raise subprocess.CalledProcessError(rc, cmd)
        return subprocess.CompletedProcess(cmd, rc, stdout=b"", stderr=err)


class FakeTmp:
    """tempfile.TemporaryDirectory stand-in over the fake file system: cleanup removes the directory and everything below it."""

    made = []

    def __init__(self, git, prefix=""):
        self.git = git
        self.name = "/tmp/" + prefix + "XXXX"

    def __enter__(self):
        self.git.dirs.add(self.name)
        FakeTmp.made.append(self.name)
        return self.name

    def __exit__(self, *exc):
        for d in [d for d in self.git.dirs if d == self.name or d.startswith(self.name + "/")]:
            self.git.dirs.discard(d)
        return False


def scenario(ref, code, through_load_git):
    """-> (error message or None, coverage tag)"""
    unknown_ref = code % 2 == 1
    branch_exists = (code // 2) % 2 == 1
    dirty = (code // 4) % 2 == 1
    outcome = OUTCOMES[(code // 8) % len(OUTCOMES)]
    normref = GIT._normalize(ref)
    git = FakeGit(known_refs=[] if unknown_ref else [ref], branches=["main"] + ([f"griffe-{normref}"] if branch_exists else []))
    before = (set(git.branches), dict(git.worktrees), set(git.dirs))
    saved = (GIT.subprocess.run, GIT.TemporaryDirectory, GIT.shutil.which, L.load)
    FakeTmp.made = []

    class SP:
        CalledProcessError = subprocess.CalledProcessError
        DEVNULL = subprocess.DEVNULL
        PIPE = subprocess.PIPE
        STDOUT = subprocess.STDOUT
        run = staticmethod(git.run)

    saved_sp = GIT.subprocess
    GIT.subprocess = SP
    GIT.TemporaryDirectory = lambda prefix="": FakeTmp(git, prefix)
    saved_which = GIT.shutil.which
    GIT.shutil.which = lambda name: "/usr/bin/git"
    loaded = {}

    def fake_load(objspec, **kw):
        loc = str(kw["search_paths"][0])
        loaded["checkout_present"] = any(loc == d or loc.startswith(d) for d in git.dirs)
        if dirty:
            for wl in git.worktrees:
                git.dirty.add(wl)  # e.g. __pycache__ written while inspecting
        if outcome != "ok":
            raise EXC[outcome]("stub")
        return Module("pkg")

    L.load = fake_load
    raised = None
    result = None
    try:
        try:
            if through_load_git:
                result = L.load_git("pkg", ref=ref, repo="/repo-under-test")
            else:
                with GIT.tmp_worktree("/repo-under-test", ref) as wt:
                    fake_load("pkg", search_paths=[wt])
        except BaseException as e:  # noqa: BLE001
            raised = e
    finally:
        GIT.subprocess = saved_sp
        GIT.TemporaryDirectory = saved[1]
        GIT.shutil.which = saved_which
        L.load = saved[3]
    after = (set(git.branches), dict(git.worktrees), set(git.dirs))
    what = f"ref={ref!r} unknown_ref={unknown_ref} branch_exists={branch_exists} dirty={dirty} load={outcome}"
    if after[0] != before[0]:
        return f"{what}: branches {sorted(before[0])} -> {sorted(after[0])}", None
    if after[1] != before[1]:
        return f"{what}: worktree list {before[1]} -> {after[1]}", None
    if after[2] != before[2]:
        return f"{what}: temporary directories left behind: {sorted(after[2] - before[2])}", None
    # exceptions propagate unchanged; setup failures are reported as RuntimeError
    setup_fails = unknown_ref or branch_exists
    if setup_fails:
        if not isinstance(raised, RuntimeError) or loaded:
            return f"{what}: expected RuntimeError before any load, got {raised!r}", None
        return None, "setup-failure"
    if outcome == "ok":
        if raised is not None:
            return f"{what}: unexpected {raised!r}", None
        return None, "loaded"
    if not isinstance(raised, EXC[outcome]):
        return f"{what}: load raised {outcome} but the caller saw {raised!r}", None
    return None, "load-failure-propagated"


@obligation(
    pid="C20", name="worktree_contract", timeout=tiered(280, 1200),
    shards=lambda: [(f"via={'load_git' if t else 'tmp_worktree'},ref-length={n}", None, [dict(through_load_git=t, n=n)]) for t in (False, True) for n in (1, 2, 3)],
    pre=lambda through_load_git, n, ref, code: len(ref) == n and all(c in "a/.-" for c in ref) and ref[0] == "a" and ref[-1] == "a" and 0 <= code < 8 * len(OUTCOMES),
    drives=[GIT.tmp_worktree, GIT._normalize, GIT.assert_git_repo, L.load_git],
    bounds={"ref": "1..3 chars over 'a', '/', '.', '-' starting and ending with a letter (branch names with slashes included)", "fault schedule": "unknown ref x temp branch already exists x load leaves files in the checkout x load outcome in " + str(OUTCOMES),
            "entry points": "tmp_worktree, load_git"},
    value_symbolic=["ref string", "fault schedule (one integer)"], selectors=["entry point, ref length (driver-bound)"],
    stubs=STUBS + ["subprocess.run -> contract model of git worktree add/remove/prune and branch -D", "TemporaryDirectory -> fake file system", "loader.load -> raises/returns per schedule, may dirty the checkout", "shutil.which('git') found"],
    assumptions=["the git contract model (documented behaviour of the four commands); counterexamples are replayed against real git in a scratch repository"],
    must_cover=["loaded", "setup-failure", "load-failure-propagated"],
    grid=lambda seed: [dict(through_load_git=t, n=len(r), ref=r, code=c) for t in (False, True) for r in ("a", "a/a") for c in (0, 1, 2, 8, 16, 24, 32)],
    replay=lambda **a: _replay_real(**a),
)
def worktree_contract(through_load_git: bool, n: int, ref: str, code: int) -> bool:
    """Branches, worktree list and temp directories are the same before and after, on every schedule; errors propagate unchanged."""
    ref, code = realize_value(ref), realize_value(code)
    from harness.C08_json import _native

    err, tag = _native(scenario, ref, code, through_load_git)
    if err:
        return fail(err)
    cover(tag)
    return True


def _replay_real(through_load_git, n, ref, code):
    """Real git, real load_git, in a scratch repository outside /repo and /verif (removed afterwards)."""
    dirty = (code // 4) % 2 == 1
    unknown_ref = code % 2 == 1
    branch_exists = (code // 2) % 2 == 1
    outcome = OUTCOMES[(code // 8) % len(OUTCOMES)]
    d = tempfile.mkdtemp(prefix="verif_c20_")
    env = dict(os.environ, GIT_AUTHOR_NAME="t", GIT_AUTHOR_EMAIL="t@t", GIT_COMMITTER_NAME="t", GIT_COMMITTER_EMAIL="t@t", HOME=d)
    env.pop("PYTHONDONTWRITEBYTECODE", None)

    def git(*a):
        return subprocess.run(["git", "-C", d, *a], capture_output=True, text=True, env=env)

    try:
        git("init", "-q", "-b", "main")
        os.makedirs(os.path.join(d, "pkg"))
        Path(d, "pkg", "__init__.py").write_text("x = 1\n" if outcome != "SyntaxError" else "def (:\n")
        git("add", "-A")
        git("commit", "-q", "-m", "one")
        real_ref = "HEAD" if ref == "HEAD" else ref
        if not unknown_ref and real_ref != "HEAD":
            r = git("branch", real_ref)
            if r.returncode:
                raise HarnessDefect(f"cannot create branch {real_ref!r} in the scratch repository: {r.stderr}")
        if branch_exists:
            git("branch", "griffe-" + GIT._normalize(ref))
        state = lambda: (git("branch", "--list").stdout, git("worktree", "list").stdout, git("status", "--porcelain").stdout, git("rev-parse", "HEAD").stdout)  # noqa: E731
        before = state()
        tmp_before = set(os.listdir(tempfile.gettempdir()))
        # run the real load_git in a child interpreter with bytecode writing enabled (the default for users)
        code_src = ("import sys\nsys.path.insert(0, %r)\nfrom _griffe.loader import load_git\ntry:\n    load_git('pkg', ref=%r, repo=%r, force_inspection=%r, allow_inspection=True)\n"
                    "except BaseException as e:\n    print('raised', type(e).__name__)\n") % (str(Path(L.__file__).parents[1]), real_ref, d, dirty)
        subprocess.run([sys.executable, "-c", code_src], capture_output=True, text=True, env=env, cwd=d, timeout=120)
        after = state()
        tmp_after = set(os.listdir(tempfile.gettempdir()))
        # (other checks run in parallel and create their own temporary checkouts: only this repository's count)
        leftovers = [x for x in tmp_after - tmp_before if x.startswith("griffe-worktree-" + os.path.basename(d) + "-")]
        if before != after or leftovers:
            return True, f"real git: branches/worktrees/status/HEAD before {before} after {after}; temp leftovers {leftovers}"
        return False, "real git run leaves the repository unchanged"
    finally:
        shutil.rmtree(d, ignore_errors=True)


# ================================================================================ returned objects stay usable (real git, real files)
SRC_CORE = '"""Module docstring."""\n\n\ndef compute(a, b=0):\n    """Compute something.\n\n    The old way.\n    """\n    return a + b\n\n\nclass Thing:\n    """A thing."""\n\n    def method(self):\n        return 1\n'
LINK_LAYOUTS = ["plain", "module-symlink", "package-dir-symlink", "search-path-symlink"]


def _sources_case(layout, via_src, dirty):
    """Build a real repository (outside /repo and /verif), tag v1, run the real load_git, and compare the source lines of every
    object - read AFTER load_git returned, i.e. after the temporary checkout was removed - with `git show v1:<file>`."""
    d = tempfile.mkdtemp(prefix="verif_c20s_")
    env = dict(os.environ, GIT_AUTHOR_NAME="t", GIT_AUTHOR_EMAIL="t@t", GIT_COMMITTER_NAME="t", GIT_COMMITTER_EMAIL="t@t", HOME=d)

    def git(*a):
        return subprocess.run(["git", "-C", d, *a], capture_output=True, text=True, env=env)

    try:
        git("init", "-q", "-b", "main")
        base = "src" if via_src else "."
        os.makedirs(os.path.join(d, "lib", "pkg"))
        os.makedirs(os.path.join(d, base), exist_ok=True)
        Path(d, "lib", "pkg", "__init__.py").write_text("from pkg.core import compute\n")
        Path(d, "lib", "pkg", "core.py").write_text(SRC_CORE)
        if layout == "plain":
            search = "lib"
        elif layout == "module-symlink":
            os.symlink("core.py", os.path.join(d, "lib", "pkg", "compat.py"))  # pkg/compat.py -> core.py
            search = "lib"
        elif layout == "package-dir-symlink":
            os.symlink(os.path.relpath(os.path.join(d, "lib", "pkg"), os.path.join(d, base)), os.path.join(d, base, "pkg") if base != "." else os.path.join(d, "pkg"))
            search = base
        else:
            os.symlink("lib", os.path.join(d, "linked"))  # the search path itself is a link
            search = "linked"
        git("add", "-A")
        git("commit", "-q", "-m", "one")
        git("tag", "v1")
        Path(d, "lib", "pkg", "core.py").write_text("# changed after the tag\n")  # the working tree differs from the tag: sources must come from the checkout of v1
        before = (git("branch", "--list").stdout, git("worktree", "list").stdout, git("status", "--porcelain").stdout, git("rev-parse", "HEAD").stdout)
        cwd = os.getcwd()
        os.chdir(d)
        try:
            pkg = L.load_git("pkg", ref="v1", repo=d, search_paths=[search], force_inspection=False, allow_inspection=dirty)
        finally:
            os.chdir(cwd)
        after = (git("branch", "--list").stdout, git("worktree", "list").stdout, git("status", "--porcelain").stdout, git("rev-parse", "HEAD").stdout)
        if before != after:
            return f"{layout}: repository changed by load_git: {before} -> {after}"
        want = git("show", "v1:lib/pkg/core.py").stdout.splitlines()
        mods = ["core"] + (["compat"] if layout == "module-symlink" else [])
        for mn in mods:
            mod = pkg[mn]
            if mod.lines != want:
                return f"{layout}: source lines of module pkg.{mn} lost or wrong after the checkout was removed: {mod.lines[:2]!r}..."
            fn = mod["compute"]
            if fn.source != "\n".join(want[fn.lineno - 1 : fn.endlineno]):
                return f"{layout}: pkg.{mn}.compute.source is {fn.source!r} after the checkout was removed"
            meth = mod["Thing.method"]
            if meth.lines != want[meth.lineno - 1 : meth.endlineno]:
                return f"{layout}: pkg.{mn}.Thing.method.lines lost after the checkout was removed"
            try:
                ds = fn.docstring.source
            except Exception as e:  # noqa: BLE001
                return f"{layout}: pkg.{mn}.compute.docstring.source raised {type(e).__name__}: {e}"
            if "Compute something." not in ds:
                return f"{layout}: pkg.{mn}.compute.docstring.source is {ds!r}"
        return None
    finally:
        shutil.rmtree(d, ignore_errors=True)


@obligation(
    pid="C20", name="sources_survive", timeout=tiered(200, 600), path_timeout=120.0,
    shards=lambda: [(f"layout={lay}", None, [dict(layout=lay)]) for lay in LINK_LAYOUTS],
    pre=lambda layout, via_src, allow: True,
    drives=[L.load_git, GIT.tmp_worktree],
    bounds={"repository": "lib/pkg/{__init__.py, core.py}, tag v1, working tree modified after the tag", "layouts": LINK_LAYOUTS, "search path": "lib / src / . / a symlink to lib", "inspection": "allowed or not (nothing needs it)"},
    value_symbolic=["via_src (where the package link lives)", "allow_inspection"], selectors=["symlink layout (driver-bound)"],
    stubs=["none: real git, real files in a scratch directory outside /repo and /verif; the solver's choices are realised before the run"],
    assumptions=["case analysis: nothing symbolic survives the file-system / git boundary; the engine certifies that every (layout, flag) combination was run"],
    must_cover=["sources-read-after-removal"],
    grid=lambda seed: [dict(layout=lay, via_src=v, allow=True) for lay in LINK_LAYOUTS for v in (False, True)],
)
def sources_survive(layout: str, via_src: bool, allow: bool) -> bool:
    """Objects returned by load_git keep their module/function/method source lines and docstring sources after the temporary checkout is gone, symlinks or not."""
    via_src, allow = realize_value(via_src), realize_value(allow)
    from harness.C08_json import _native

    err = _native(_sources_case, layout, via_src, allow)
    if err:
        return fail(err)
    cover("sources-read-after-removal")
    return True
