#!/bin/bash
# Run the pinned test suite on /repo's working tree and compare with /root/.vp/BASELINE.json stable_pass.
# exit 0 iff every stable_pass test still passes.
out=$(mktemp -d)
cd /repo && /venv/bin/python -m pytest -ra -q -p no:cacheprovider --timeout=900 --continue-on-collection-errors --junitxml=$out/j.xml >$out/log 2>&1
python3 - "$out/j.xml" <<'PY'
import json, sys, xml.etree.ElementTree as ET
b = json.load(open('/root/.vp/BASELINE.json'))
passed, failed = set(), set()
for tc in ET.parse(sys.argv[1]).getroot().iter('testcase'):
    tid = (tc.get('classname') or '') + '::' + (tc.get('name') or '')
    if tc.find('failure') is not None or tc.find('error') is not None: failed.add(tid)
    elif tc.find('skipped') is None: passed.add(tid)
passed -= failed
missing = [t for t in b['stable_pass'] if t not in passed]
print(f"stable_pass={len(b['stable_pass'])} passed_now={len(passed)} regressions={len(missing)}")
for t in missing[:20]: print("  REGRESSION", t)
sys.exit(1 if missing else 0)
PY
rc=$?
rm -rf $out
exit $rc
