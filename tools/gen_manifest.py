#!/usr/bin/env python3
"""Regenerate MANIFEST.json from the table below (run from /verif)."""
import json
import os

ROOT = os.path.dirname(os.path.dirname(os.path.abspath(__file__)))
X = "CrossHair symbolic execution of the real functions (z3), bounded; counterexamples replayed natively"
S = "own AST-level symbolic interpreter (vlib/pysymex) over the real source + z3, bounded; counterexamples replayed natively"

CHECKS = {
    "C01": dict(engine="X", technique=X, design="§4 C01",
                text="Bounded symbolic model checking of the real Visitor on hand-built ast trees (statement kinds per slot bound by the driver over the full cross product; names, every line number and docstring text symbolic) against a reference binding model, plus the visibility decision table and span slicing for all (lineno, endlineno). Hand-built trees are validated against ast.parse of a second rendering on every run. Not a proof: 2 (quick) / 3 (thorough) module-level slots, one nesting level.",
                note="Trusted: CrossHair models + z3; reference binding model (written from the property statement); hand-built AST == compile() output only validated on the concrete grid and on every counterexample; logging and AliasResolutionError message formatting stubbed."),
    "C08": dict(engine="X", technique=X, design="§4 C08",
                text="Bounded symbolic model checking of the serialisation logic (as_dict of every model class and JSONEncoder.default run on trees whose every lineno/endlineno is None/0/positive, docstring presence/span/text, labels and parameter kinds symbolic), followed on every path by the public round trip (as_json -> from_json -> as_json) with CPython's json on the realised tree: identical JSON, equal skeleton, names in reloaded expressions resolving as before; one expression shape per entry of expressions._node_map (menu derived at run time), regular/namespace/built-in module file paths, minimal and full dumps; CLI dump. cli_dump covers a stream, a single file and one file per package ({package} template) in minimal and full mode; a second class whose members are named cls / kind / like a name of its own header exercises the decoder's dispatch and header scoping.",
                note="Trusted: CrossHair models + z3. CrossHair models json in Python (slow and regex-based): the harness traverses the encoder's default() symbolically itself and checks on every path that its traversal equals what json.dumps produces. Known findings: full dumps of built-in modules and of namespace packages outside the cwd raise (regions excluded)."),
    "C09": dict(engine="X", technique=X, design="§4 C09",
                text="Bounded symbolic model checking: the full-dump serialisation of the C08 trees (symbolic optional fields, every expression shape, regular and namespace packages, docstrings parsed with every style over a menu containing every section kind) is validated with jsonschema against /repo/docs/schema.json, re-read on every run.",
                note="Trusted: CrossHair models + z3, jsonschema (Draft 7). The validation itself runs outside the tracer on the realised document."),
    "C10": dict(engine="S", technique=S, design="§4 C10",
                text="Bounded symbolic model checking with the repo's own diff._function_incompatibilities interpreted from source over two fully symbolic signatures (names, kinds, defaults, return annotations as z3 terms; validity of the def as a constraint) and a symbolic call; four query families (completeness, rules, identity, precision); every counterexample is replayed with real defs, a real call and griffe.visit + find_breaking_changes. N<=2 parameters (quick), N<=3 (thorough).",
                note="Trusted: pysymex agrees with CPython on the interpreted subset (differential pass each run), z3 reference binder (validated against real calls on the full grid N<=2 each run)."),
    "C12": dict(engine="X", technique=X, design="§4 C12",
                text="Bounded symbolic model checking of parse_google/parse_numpy/parse_sphinx: (a) whole text symbolic up to n characters over the characters the parsers branch on, (b) K lines of vocabulary bodies with every indentation 0..4 and all parser options symbolic, (c) text without section syntax comes back as one text section. Totality, well-formed sections, termination (fuel on docstring.lines indexing), docstring/parent unmodified. Two further families: items (Returns/Yields/Receives sections with 1..3 named/typed/bare items under parents whose return annotation is a tuple, Generator or Iterator of tuples with fewer or more elements than items) and trailing (the real Docstring constructor on a body ending with a section header followed by a solver-chosen tail of blanks, newlines, tabs, form feeds).",
                note="Trusted: CrossHair models + z3; regex matching is done by CPython's re on the realised subject (CrossHair's symbolic regex model was measured wrong); docstring_warning/logging stubbed; Docstring value assigned directly (inspect.cleandoc not under test)."),
    "C02": dict(engine="X", technique=X, design="§4 C02",
                text="Bounded symbolic model checking of get_parameters/Visitor.handle_function on hand-built ast.arguments over the full cross product of segment lengths (<=2 quick, <=3 thorough), default counts, kw-default masks, variadics, annotation masks, with the identity of every default expression symbolic; Parameters container vs a list model with symbolic keys/indices; overload/property/setter/deleter sequences with symbolic names. Reference rule validated against exec + inspect.signature and griffe.visit on the rendered def every run.",
                note="Trusted: CrossHair models + z3; hand-built AST equals compile() output only validated on the concrete grid and on every counterexample."),
    "C07": dict(engine="X", technique=X, design="§4 C07",
                text="Bounded symbolic model checking: c3linear_merge vs a reference C3 merge on 3 symbolic integer lists (<=3 items); Class.mro() for every base assignment of 3 (quick) / 4 (thorough) classes with <=2 bases each (unknown bases, duplicates, self-inheritance, cycles, a base reached through an alias) against CPython's own type(); inherited_members/all_members/cls[name] vs getattr along the real __mro__ for every member placement on four hierarchy shapes. The inherited obligation also creates and queries the subclass before its bases are loaded (two-step history) and reaches the subclass through a re-export alias in a second module.",
                note="Trusted: CrossHair models + z3. The CPython oracle (type()) is called inside the symbolic run on realised values."),
    "C06": dict(engine="X", technique=X, design="§4 C06",
                text="Bounded symbolic model checking: every import graph of 3 aliases (+ up to 2 wildcard imports) whose targets are solver-chosen dotted strings over loaded/unloaded modules and defined/undefined names is run through the real resolve_aliases; 'confirmed' means CrossHair exhausted the path tree. Not a proof: graphs with more aliases/modules are outside the bound. Three further obligations: wildcard_cycle3 (three loaded modules with optional star imports from solver-chosen modules around a real definition placed before or after the star import), side_loading (resolve_aliases(external=True) with packages side-loaded from an in-memory registry: completeness and fixpoint over two calls) and resolved_cycle_access (aliases leading into a cycle of already-resolved links must report CyclicAliasError on every access, under a call counter).",
                note="Trusted: CrossHair's str/dict models + z3; ModuleFinder pointed at a non-existent path; logging stubbed."),
}

CHECKS["C16"] = dict(engine="X", technique=X, design="§4 C16",
                     text="Bounded symbolic model checking, inductive-step style: from a valid pre-state (two modules, a class with members, four aliases each resolved or not by symbolic choice) ONE API call (set_member, __setitem__, del_member, __delitem__, get_member, __getitem__ on a module, a class or the collection) with a solver-chosen key (dotted string or tuple; segments over existing names, names reached through an alias, a fresh name, the empty string) must preserve every invariant of the statement or fail leaving the tree unchanged; plus 2-step (thorough: 3-step) histories from an empty collection against a nested-dictionary model. Inserted values include an already-resolved parentless alias (created with its target object).",
                     note="Trusted: CrossHair models + z3; the pre-state family (if an invariant-violating state were reachable only through longer histories the step would not see it). Known finding: mutation through an alias path is silently lost (region excluded).")

CHECKS["C04"] = dict(engine="X", technique=X, design="§4 C04",
                     text="Bounded symbolic model checking: relative_to_absolute against CPython's own importlib._bootstrap._resolve_name for every level 0..3 (4), module depth <= 3, package-or-module, from-module text; every import form through Visitor.visit_import/visit_importfrom with symbolic names (collisions with the current module and package found by solving); ExprName.canonical_path for a solver-chosen name from every scope of a small package (module, class body, nested class body, method signatures) against Python's scoping rule; attribute chains a.b.c.",
                     note="Trusted: CrossHair models + z3; the reference scoping rule (class bodies are not enclosing scopes; module globals are outermost). Known finding: nested classes see enclosing-class members (region excluded).")

CHECKS["C05"] = dict(engine="X", technique=X, design="§4 C05",
                     text="Bounded symbolic model checking: a package built in memory (pkg/__init__ star-importing and optionally explicitly importing from submodule s, s optionally star-importing from t; optional __all__ in s and in pkg, also assembled as s.__all__ + [...]) is run through the real Visitor, expand_exports, expand_wildcards and resolve_aliases with the line numbers that decide wildcard-vs-local precedence symbolic and every name case-split by the engine; the visible names and the defining object of each must equal a reference model of CPython's import namespace, validated against a real interpreter importing the package from disk (grid + every counterexample); resolved aliases present their targets with member paths rebased.",
                     note="Trusted: CrossHair models + z3; the reference namespace model (validated against a real `import pkg` in a subprocess on the grid and on every counterexample); hand-built ASTs.")
CHECKS["C11"] = dict(engine="X", technique=X, design="§4 C11",
                     text="Bounded symbolic model checking of find_breaking_changes on two-version histories: one object of each kind exposed directly / through a re-export from a private module / as a class member / as an inherited member, edited by each catalogue entry (remove, re-kind, incompatible change; identity, add public object, add optional keyword parameter, reorder), with the object's name and the module's __all__ symbolic so that the public/private frontier is crossed by solving; unresolvable and cyclic re-exports are skipped; Breakage.explain in all four styles; `griffe check` exit status.",
                     note="Trusted: CrossHair models + z3; the reference visibility table (the same as C01's). Known finding: changes seen through a re-export are located at the private canonical path (region excluded).")
CHECKS["C13"] = dict(engine="X", technique=X, design="§4 C13",
                     text="Bounded symbolic model checking: section layouts from a catalogue (10 for Google/Numpy, 5 for Sphinx) rendered in well-formed syntax with symbolic holes (item names, descriptions with an embedded colon or a continuation line, admonition title), parsed by the real parsers; parsed sections must equal the written structure (kinds in written order for Google/Numpy, names, annotations, signature fallbacks, descriptions, titles, no leaks).",
                     note="Trusted: CrossHair models + z3; regexes run by CPython's re on the realised line; docstring handed over pre-split; renderers written from docs/reference/docstrings.md. A trailing newline in a Numpy description (the separator line) is not counted as a difference.")

CHECKS["C18"] = dict(engine="X", technique="CrossHair/z3 exhausts the bounded space of dataclass definitions (finite-domain choices as solver variables, validity as preconditions); on every feasible choice the real DataclassesExtension is compared with CPython's own dataclasses executing the same source", design="§4 C18",
                     text="Bounded exhaustive case analysis driven by the solver: every combination of hierarchy shape (single, dataclass child, plain child, hand-written __init__, non-dataclass, three levels), decorator arguments (init/kw_only on parent and child), field form of every field (plain, default, field(default/init=False/kw_only/default_factory), ClassVar, InitVar, KW_ONLY marker, property) and whether a child field overrides a parent field; oracle = inspect.signature of the class built by CPython's dataclasses from the same source (no reference model).",
                     note="The inputs are programs: nothing value-symbolic survives compile(); the engine only decides which finite-domain choices are feasible and that none is left unexplored. Known finding: child fields that override parent fields with a form changing their participation in __init__ (region excluded).")

CHECKS["C15"] = dict(engine="X", technique=X, design="§4 C15",
                     text="Bounded symbolic model checking of the gates through which analysed code could run: _load_module_path with a symbolic file suffix and symbolic allow/force flags (inspection only if forced, or allowed for a non-.py/.pyi file, else LoadingError); GriffeLoader.load / resolve_aliases(external) / expand_wildcards(external) when the package is not on disk (a dynamic import is attempted iff inspection is allowed or forced, and for external packages only on request); dynamic_import/sys_path under every fault schedule of importlib.import_module and getattr (return, Exception, ImportError, SystemExit, KeyboardInterrupt at each attempt): sys.path restored to the identical list, failures surface as ImportError. The list of callers of dynamic_import / inspect / import_module is re-derived from the source at every run and the check fails closed (exit 3) if a new caller appears. The import stub may also mutate the temporary list or rebind sys.path (what vendoring code does) during the first import attempt.",
                     note="Gate property, not a whole-program proof: it shows code can only be executed through the listed gates under the stated flag conditions; the environment (finder, importlib) is stubbed. No real package is imported.")

CHECKS["C19"] = dict(engine="X", technique=X, design="§4 C19",
                     text="Bounded exhaustive case analysis driven by the solver: a runtime module and a stubs module with one member slot of every kind pair (function/attribute/class/alias/absent on each side: 25 pairs, mismatches included), a class with a method on both sides, and an 8-bit solver-chosen vector deciding which docstrings, annotations, extra members and overload lists exist on which side; merged through merge_stubs in both argument orders and through set_member's implicit merge in both insertion orders. Every clause of the statement is asserted, including equality of the result across the four routes.",
                     note="Trusted: CrossHair/z3 as case splitter (the inputs are finite-domain). Second obligation `placements` (harness/C19_placements.py): the three stub placements (sibling .pyi, .pyi inside the package, separate -stubs package) on the in-memory file system of C14, every listing order, requests by top-level name and dotted object paths: same, correct merged module; replayed on real directories.")

CHECKS["C20"] = dict(engine="X", technique=X + "; git replaced by a contract model during the symbolic run, real git in the replay", design="§4 C20",
                     text="Bounded symbolic model checking of tmp_worktree and load_git with subprocess/TemporaryDirectory/load replaced by nondeterministic stubs: a contract model of `git worktree add/remove/prune` and `git branch -D`, a fake file system, and a load that returns or raises (LoadingError, SyntaxError, extension error, KeyboardInterrupt, ImportError) and may leave files in the checkout; the ref is a symbolic string (slashes, dots, dashes), the fault schedule one solver-chosen integer. Branch set, worktree list and temporary directories must be identical before and after; errors propagate unchanged. Counterexamples are replayed with real git in a scratch repository and the real load_git in a child interpreter with byte-code writing enabled. Second obligation sources_survive (case analysis with real git and real files): repositories whose package is reached through no link, a module symlink, a package-directory symlink or a symlinked search path; after load_git returned (checkout removed) every module's, function's and method's source lines and docstring sources must equal `git show <tag>:<file>`.",
                     note="Trusted: the git contract model (documented behaviour only); HEAD/index/working-tree are untouched by construction of the commands used and are compared only in the real-git replay.")

CHECKS["C03"] = dict(engine="X+S", technique=S + " (lambda marker machine); " + X + " (parse_strings decision; solver-driven case analysis of node shapes with CPython's parser as oracle)", design="§4 C03",
                     text="REDUCED CLAIM. (1) lambda_markers: ExprLambda.iterate is interpreted from its current source over parameter lists (<= 3, thorough 4) whose kinds are z3 values constrained to valid signatures; on each feasible path the yielded text is concrete, CPython's parser reads it back and one solver query decides that no kind vector following that path differs from what was parsed. (2) string_annotations: the parse_strings decision (postponed evaluation, explicit flag, typing/typing_extensions Literal, 10 positions of the string) on the real get_expression. (3) shapes: every node type of expressions._node_map as parent x child position x every node type as child (depth 2), element counts, operator indices and optional-part masks chosen by the solver; str(expr) is parsed by CPython and compared with the tree it was built from; flat/non-flat pieces concatenate to str(expr); every name is an ExprName element in order. Arbitrary nesting depth (the quantifier of the property) is NOT covered: depth 2 only, and obligation (3) is case analysis, not value-symbolic reasoning.",
                     note="Trusted: pysymex (validated against native ExprLambda.iterate on every valid parameter list n<=3 on each run), CrossHair/z3 as case splitter; hand-built ast nodes (only trees CPython's unparse->parse reproduces are considered). Known genuine defects excluded by narrow regions: operands rendered without parentheses, f-string conversion/format spec dropped, `from __future__ import annotations as x`. Depth > 2, statement contexts, and string contents of f-strings with quotes/braces are outside the claim.")

CHECKS["C14"] = dict(engine="X", technique="CrossHair (z3) as exhaustive case splitter over file subsets x directory enumeration orders x placements, real finder/loader on an in-memory file system; reference of CPython's FileFinder/pkgutil rules validated against the real import system; counterexamples replayed on real directories", design="§4 C14",
                     text="REDUCED CLAIM, solver-driven case analysis. The real ModuleFinder and GriffeLoader run on an in-memory file system (os.walk / pathlib predicates stubbed). Every subset of <= 2 (thorough 3) files of a 20-entry vocabulary (plus interacting triples/quadruples) x 7 layouts over two search paths (regular, native and pkgutil-style namespace in one/two portions, package twice, module-before-package, package-before-module); the solver chooses the permutation in which every directory lists its entries, the portion each file lives in and whether the package is requested by name or by directory path. Asserted: tree independent of the enumeration order and of the request form; every loaded module importable by CPython from that file (or a stub); every module pkgutil.walk_packages finds is loaded; package/sub-package/namespace classification. .pth files, editable installs and the real OS listing are outside the claim.",
                     note="Trusted: CrossHair/z3 as case splitter (inputs are realised before the loader runs natively); the in-memory file system (validated against real directories under the same injected order on every grid point and counterexample); the FileFinder/pkgutil reference (validated against importlib.util.find_spec and pkgutil.walk_packages in a subprocess). Known genuine defects excluded by narrow regions: same module name provided by several runtime files; namespace portion shadowed by a regular sub-package.")

CHECKS["C17"] = dict(engine="X", technique="CrossHair (z3) as exhaustive case splitter over a bounded structural model of a package; each case is written to disk and loaded by the real static agent and by the real inspecting agent (CPython imports it); skeletons compared, CPython's inspect.signature as second oracle", design="§4 C17",
                     text="REDUCED CLAIM, solver-driven case analysis (nothing symbolic survives the import boundary). Bounded structural model: package with two modules; a function whose signature shape is solver-chosen (positional-only, positional-or-keyword, defaults, keyword-only with every default mask, *args, **kwargs: 96 shapes, thorough 300+), a class with attribute, __init__ setting an instance attribute, a method of 7 kinds (plain, static, class, property, cached_property, async, functools.cache), optional nested class; a second module importing them in 5 forms and subclassing (none / one / imported / two bases); 16 docstring presence patterns. Both agents' skeletons must agree on member names, kinds, parameters (names, kinds, required-ness, also against inspect.signature), canonical base paths, docstrings of modules/classes/functions, and aliases with the same final targets. Arbitrary executable modules (the property's quantifier) are NOT covered.",
                     note="Trusted: CrossHair/z3 as case splitter; the comparison ignores exactly the differences the statement lists (line numbers, interpreter dunders, instance attributes, attribute docstrings/values, origin of imported plain values, labels). The package is really imported by the dynamic agent (in a scratch directory; sys.modules entries removed afterwards).")

NOT_APPLICABLE = [
    {"property_id": "C17", "reason": "static-vs-dynamic agreement needs importlib/inspect on live objects of concrete executable modules: nothing symbolic survives the import boundary, so a solver could only enumerate program texts (enumeration, not solving). See DESIGN.md §5."},
]


# thorough tiers that were run end to end on the unchanged tree in the last session (exit 0 within ~35 min on 16 cores); the others keep
# their `--tier thorough` bounds in the harness but are not registered: a registered command must be known to finish
THOROUGH_VERIFIED: set = {"C04", "C09", "C10", "C11", "C13", "C15", "C19", "C20"}


def main():
    checks = []
    for pid in sorted(CHECKS):
        c = CHECKS[pid]
        checks.append({
            "property_id": pid,
            "quick_cmd": f"./check {pid} --tier quick",
            **({"thorough_cmd": f"./check {pid} --tier thorough"} if pid in THOROUGH_VERIFIED else {}),
            "evidence_file": f"/verif/evidence/{pid}.json",
            "replay_cmd_template": f"./check {pid} --replay {{path}}",
            "engine": {"X": "crosshair", "S": "pysymex", "X+S": "crosshair+pysymex"}[c["engine"]],
            "level_claimed": {"category": "model_checking", "text": c["text"], "design_ref": c["design"]},
            "level_note": c["note"],
            "technique": c["technique"],
        })
    claimed = set(CHECKS)
    all_ids = [json.loads(l)["id"] for l in open(os.path.join(ROOT, "properties.jsonl"))]
    na = [e for e in NOT_APPLICABLE if e["property_id"] not in claimed]
    for pid in all_ids:
        if pid not in claimed and pid not in {e["property_id"] for e in na}:
            na.append({"property_id": pid, "reason": "check not built yet in this round (planned in DESIGN.md §4); not claimed until its harness is committed"})
    man = {
        "version": 1,
        "setup_cmd": "./check --setup",
        "hooks": {"guard": "GRIFFE_VERIF", "enable": "none needed: both engines execute the unmodified sources of /repo/src/_griffe (imported from the working tree); stubs are monkeypatches inside the harness process",
                  "baseline_off_cmd": "cd /repo && /venv/bin/python -m pytest -ra -q -p no:cacheprovider --timeout=900 --continue-on-collection-errors",
                  "source_commits": [], "add_only": True},
        "engines": [
            {"name": "crosshair", "path": "/verif/vlib/xrun.py", "serves_properties": [p for p in sorted(CHECKS) if "X" in CHECKS[p]["engine"]],
             "kind_free_text": "CrossHair 0.0.110 driven through its library API (analyze_calltree) on harness functions that call the real griffe code; z3 decides every branch; one process per obligation shard"},
            {"name": "pysymex", "path": "/verif/vlib/pysymex.py", "serves_properties": [p for p in sorted(CHECKS) if "S" in CHECKS[p]["engine"]],
             "kind_free_text": "forking symbolic interpreter over the AST of the repo's current source (inspect.getsource at run time), finite-domain values as z3 ints, z3 queries pc ∧ ¬property at the end of every feasible path"},
        ],
        "checks": checks,
        "not_applicable": sorted(na, key=lambda e: e["property_id"]),
        "notes": "All checks: exit 0 = nothing unlisted violated within the explored bounds (inconclusive obligations are listed in the evidence and never counted as discharged); exit 1 = VIOLATION reproduced natively; exit 3 = harness error. Known genuine defects are in /verif/known_findings.json.",
    }
    json.dump(man, open(os.path.join(ROOT, "MANIFEST.json"), "w"), indent=1)
    print("claimed:", sorted(claimed), "na:", [e["property_id"] for e in na])


if __name__ == "__main__":
    main()
