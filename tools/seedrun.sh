#!/bin/bash
# usage: tools/seedrun.sh <worktree> <patch.diff> <Cxx> [extra check args]   -- run a check against a scratch worktree with a seeded change applied
wt=$1; patch=$2; pid=$3; shift 3
git -C "$wt" checkout -q -- src docs 2>/dev/null
git -C "$wt" apply "$patch" || { echo "PATCH DOES NOT APPLY"; exit 2; }
cd /verif && VERIF_REPO_SRC="$wt/src" VERIF_TMP=/tmp ./check "$pid" --no-evidence "$@" 2>&1 | grep -v "^  \|^KNOWN\|^INCONC" | tail -8 | cut -c1-300
rc=${PIPESTATUS[0]}
git -C "$wt" checkout -q -- src docs
echo "seedrun rc=$rc"
