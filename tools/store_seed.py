#!/usr/bin/env python3
"""usage: store_seed.py <PID> <N> <caught_by> <result...>  — copy a confirmed sub-agent change from /tmp/wt/out_<PID>/<N> to /verif/seeded/<PID>-<k>/ with meta.json"""
import json, os, re, shutil, subprocess, sys

pid, n, caught_by = sys.argv[1:4]
result = " ".join(sys.argv[4:])
src = f"/tmp/wt/{os.environ.get('OUTP', 'out')}_{pid}/{n}"
root = os.path.dirname(os.path.dirname(os.path.abspath(__file__)))
k = int(n)
while os.path.exists(os.path.join(root, "seeded", f"{pid}-{k}")) and not os.path.exists(os.path.join(root, "seeded", f"{pid}-{k}", ".from_" + n)):
    k += 1
dst = os.path.join(root, "seeded", f"{pid}-{k}")
os.makedirs(dst, exist_ok=True)
open(os.path.join(dst, ".from_" + n), "w").close()
for f in ("patch.diff", "demo.py", "notes.md"):
    shutil.copy(os.path.join(src, f), os.path.join(dst, f))
notes = open(os.path.join(src, "notes.md")).read()
title = notes.strip().splitlines()[0].lstrip("# ").strip()
secs = {m.group(1).strip().lower(): m.group(2).strip() for m in re.finditer(r"^##+ (.+?)\n(.*?)(?=^##+ |\Z)", notes, re.S | re.M)}
def pick(*keys):
    for kk, v in secs.items():
        if any(x in kk for x in keys):
            return re.sub(r"\s+", " ", v)[:1800]
    return ""
files = sorted(set(re.findall(r"^\+\+\+ b/(\S+)", open(os.path.join(src, "patch.diff")).read(), re.M)))
meta = {
    "property": pid,
    "summary": title + ". " + pick("what")[:1200],
    "needs_to_manifest": pick("needs", "trigger", "manifest") or pick("why it breaks"),
    "why_tests_miss_it": pick("test suite", "tests", "notice"),
    "files": files,
    "author": "independent sub-agent given only the property text and a scratch worktree",
    "confirmed_by_me": {
        "applies_to": "git apply at /repo HEAD " + subprocess.run(["git", "-C", "/repo", "rev-parse", "--short", "HEAD"], capture_output=True, text=True).stdout.strip(),
        "baseline": "/tmp/wt/baseline.sh <worktree> (pytest with PYTHONPATH=<worktree>/src, so the tests exercise the changed sources): stable_pass=754 regressions=0 with the change applied",
        "demo": "demo.py exits 0 on the clean tree and 1 with the change (PYTHONPATH=<worktree>/src /venv/bin/python demo.py)",
    },
    "check_run": f"tools/seedrun.sh <worktree> patch.diff {pid}  (VERIF_REPO_SRC=<worktree>/src ./check {pid} --no-evidence)",
    "caught_by": caught_by,
    "result": result,
}
json.dump(meta, open(os.path.join(dst, "meta.json"), "w"), indent=1)
os.remove(os.path.join(dst, ".from_" + n))
print("stored", dst)
