"""Fixes for two CrossHair 0.0.110 model bugs met while probing griffe (see DESIGN.md §2).

Both only affect *completeness* of a "confirmed" verdict; every counterexample is replayed natively
before it is reported, and vlib.selftest checks these idioms against CPython on every run.
"""
import crosshair.libimpl.relib as _R
import crosshair.simplestructs as _S
from crosshair.tracers import NoTracing


def _groupdict(self, default=None):
    # 0.0.110 drops unmatched groups and returns index ranges instead of strings.
    return {name: (self.group(name) if self.group(name) is not None else default) for name in self.re.groupindex}


for _n, _c in list(vars(_R).items()):
    if isinstance(_c, type) and "groupdict" in vars(_c):
        _c.groupdict = _groupdict


def _sc_eq(self, other):
    # 0.0.110 compares the two halves with a type-sensitive == ([] != ()).
    with NoTracing():
        if not hasattr(other, "__len__"):
            return False
    if self.__len__() != other.__len__():
        return False
    for a, b in zip(self, other):
        if a != b:
            return False
    return True


_S.SequenceConcatenation.__eq__ = _sc_eq
