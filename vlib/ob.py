"""Obligation registry shared by harness modules, the per-shard worker (xrun) and the runner.

An obligation is one solver-decided claim:
  * engine "X": a harness function over primitive (str/int/bool) arguments which drives real
    functions of /repo/src/_griffe; CrossHair executes it symbolically, `pre` bounds the inputs,
    the boolean result is the assertion.
  * engine "S": a function `run(tier, shard, excluded) -> result dict` that drives vlib.pysymex.
"""
from __future__ import annotations

import hashlib
import inspect
import os
import sys
from dataclasses import dataclass, field
from typing import Any, Callable

TIER = os.environ.get("VERIF_TIER", "quick")
if TIER not in ("quick", "thorough"):
    TIER = "quick"
SEED = int(os.environ.get("VERIF_SEED", "0") or 0)


def tiered(quick, thorough):
    """Pick a bound by tier."""
    return quick if TIER == "quick" else thorough


# ---- per-process instrumentation (concrete data only) ---------------------------------------
COVER: set[str] = set()
LAST_FAIL: list[str] = []


def cover(tag: str) -> None:
    """Reachability witness: records that some explored path passed here."""
    COVER.add(tag)


def fail(reason: str) -> bool:
    """Return False from a harness, remembering why (shown on native replay)."""
    LAST_FAIL.append(reason)
    return False


class HarnessDefect(Exception):
    """Raised by a replay/validation routine when the harness itself (encoding, stub, reference model) is wrong."""


@dataclass
class Obligation:
    pid: str
    name: str
    engine: str  # "X" | "S"
    fn: Callable | None = None  # X: harness function; S: unused
    pre: Callable | None = None  # X: precondition over the same argument names
    shards: Callable[[], list[tuple]] | None = None  # -> [(label, extra_pre[, cases])]; cases = list of dicts of selector args bound concretely by the driver
    timeout: int = 120  # CPU seconds per shard (per-condition timeout)
    path_timeout: float = 30.0
    drives: list = field(default_factory=list)  # real functions symbolically executed
    bounds: dict = field(default_factory=dict)
    value_symbolic: list[str] = field(default_factory=list)
    selectors: list[str] = field(default_factory=list)
    stubs: list[str] = field(default_factory=list)
    assumptions: list[str] = field(default_factory=list)
    must_cover: list[str] = field(default_factory=list)
    grid: Callable[[int], list[dict]] | None = None  # concrete in-bound points run natively
    replay: Callable | None = None  # independent native replay (public API / external oracle); returns (reproduced, detail)
    run: Callable | None = None  # engine S entry
    module: str = ""
    doc: str = ""
    allow_unknown: bool = False  # thorough-only deepening whose timeout is reported as bug-hunting

    def shard_list(self):
        if self.shards is None:
            return [("all", None)]
        return list(self.shards())


REGISTRY: dict[str, Obligation] = {}


def obligation(**kw):
    def deco(fn):
        ob = Obligation(fn=fn, engine=kw.pop("engine", "X"), module=fn.__module__, doc=(fn.__doc__ or "").strip(), **kw)
        REGISTRY[ob.name] = ob
        fn.obligation = ob
        return fn

    return deco


def s_obligation(**kw):
    def deco(run):
        ob = Obligation(run=run, engine="S", module=run.__module__, doc=(run.__doc__ or "").strip(), **kw)
        REGISTRY[ob.name] = ob
        return run

    return deco


def prop(cls, name):
    """The function behind a property / cached_property / plain attribute of a class (robust to the code under test changing which it is)."""
    for klass in getattr(cls, "__mro__", (cls,)):
        if name in vars(klass):
            d = vars(klass)[name]
            return getattr(d, "fget", None) or getattr(d, "func", None) or getattr(d, "__func__", None) or d
    return getattr(cls, name)


def source_fingerprint(objs) -> list[dict]:
    """Qualified name + sha1 of the *current* source of each analysed function/class."""
    out = []
    for o in objs:
        try:
            target = o.fget if isinstance(o, property) else getattr(o, "func", o) if type(o).__name__ == "cached_property" else o
            src = inspect.getsource(target)
            fn = inspect.getsourcefile(target)
            name = getattr(target, "__qualname__", getattr(target, "__name__", repr(target)))
            mod = getattr(target, "__module__", "")
            out.append({"function": f"{mod}.{name}", "file": fn, "sha1": hashlib.sha1(src.encode()).hexdigest()[:12]})
        except Exception as e:  # noqa: BLE001
            out.append({"function": repr(o), "error": str(e)})
    return out


def assert_repo_import():
    import _griffe

    f = os.path.realpath(_griffe.__file__)
    want = os.path.realpath(os.environ.get("VERIF_REPO_SRC", "/repo/src")) + "/"
    if not f.startswith(want):
        print(f"HARNESS-ERROR: _griffe imported from {f}, not {want}", file=sys.stderr)
        sys.exit(3)


def to_jsonable(v: Any):
    if isinstance(v, (str, int, bool, float)) or v is None:
        return v
    if isinstance(v, (list, tuple)):
        return [to_jsonable(x) for x in v]
    if isinstance(v, dict):
        return {str(k): to_jsonable(x) for k, x in v.items()}
    return repr(v)
