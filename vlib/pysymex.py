"""Engine S: a small forking symbolic interpreter over the AST of the repo's *current* source.

Functions are read with inspect.getsource at run time and interpreted; values are ordinary Python
objects or SV(z3 term, codec) where a codec maps a finite set of Python values (enum members, names,
default strings) to ints. Control flow forks only on symbolic truth tests (DFS by re-execution with a
decision prefix, both polarities checked for feasibility first). Anything outside the supported subset
raises Unsupported, which a harness reports as inconclusive - never as success.
"""
from __future__ import annotations

import ast
import builtins
import inspect
import textwrap
import time
import z3


class Unsupported(Exception):
    pass


class Codec:
    """Maps a finite set of python values to ints."""

    def __init__(self, name, values):
        self.name = name
        self.values = list(values)

    def code(self, v):
        for i, x in enumerate(self.values):
            if x is v or (type(x) is type(v) and x == v):
                return i
        return None


class SV:
    """Symbolic value: z3 expr + codec (None codec => plain Bool/Int)."""

    __slots__ = ("e", "codec")

    def __init__(self, e, codec=None):
        self.e = e
        self.codec = codec

    def __repr__(self):
        return f"SV({self.e}, {self.codec.name if self.codec else None})"

    def __bool__(self):
        raise Unsupported("native truth test of symbolic value")

    def __eq__(self, other):
        raise Unsupported("native == on symbolic value")

    def __hash__(self):
        raise Unsupported("native hash of symbolic value")


def is_sbool(v):
    return isinstance(v, SV) and v.codec is None and z3.is_bool(v.e)


class Engine:
    def __init__(self):
        self.solver = z3.Solver()
        self.queries = 0
        self.solver_time = 0.0
        self.paths = 0

    def check(self, *extra):
        t = time.time()
        self.solver.push()
        for c in self.pc:
            self.solver.add(c)
        for c in extra:
            self.solver.add(c)
        r = self.solver.check()
        self.solver.pop()
        self.queries += 1
        self.solver_time += time.time() - t
        if str(r) == "unknown":
            raise Unsupported("solver unknown")
        return str(r) == "sat"

    def model(self, *extra):
        self.solver.push()
        for c in self.pc:
            self.solver.add(c)
        for c in extra:
            self.solver.add(c)
        assert str(self.solver.check()) == "sat"
        m = self.solver.model()
        self.solver.pop()
        return m

    def branch(self, cond) -> bool:
        cond = z3.simplify(cond)
        if z3.is_true(cond):
            return True
        if z3.is_false(cond):
            return False
        if self.pos < len(self.decisions):
            d = self.decisions[self.pos]
        else:
            can_t = self.check(cond)
            can_f = self.check(z3.Not(cond))
            if can_t and can_f:
                d = True
                self.worklist.append(self.decisions[: self.pos] + [False])
            elif can_t:
                d = True
            elif can_f:
                d = False
            else:
                raise Unsupported("infeasible path reached")
            self.decisions = self.decisions[: self.pos] + [d]
        self.pos += 1
        self.pc.append(cond if d else z3.Not(cond))
        return d

    def explore(self, thunk, base_constraints=()):
        """Run thunk() over all feasible paths. thunk returns normally; use engine.pc at the end."""
        self.worklist = [[]]
        while self.worklist:
            self.decisions = self.worklist.pop()
            self.pos = 0
            self.pc = list(base_constraints)
            self.paths += 1
            yield thunk()


class _Return(Exception):
    def __init__(self, value):
        self.value = value


class _Break(Exception):
    pass


class _Continue(Exception):
    pass


class _StopIterationProxy(Exception):
    """StopIteration raised by interpreted code (cannot cross Python generator frames, PEP 479)."""


_SRC_CACHE: dict = {}


def func_ast(fn):
    key = fn
    if key not in _SRC_CACHE:
        src = textwrap.dedent(inspect.getsource(fn))
        tree = ast.parse(src)
        node = tree.body[0]
        _SRC_CACHE[key] = node
    return _SRC_CACHE[key]


def has_yield(node):
    for n in ast.walk(node):
        if isinstance(n, (ast.Yield, ast.YieldFrom)):
            return True
    return False


class SRecord:
    """A record whose attributes may be symbolic; `cls` gives the real class whose methods/properties are interpreted."""

    def __init__(self, cls, **fields):
        object.__setattr__(self, "_cls", cls)
        object.__setattr__(self, "_fields", dict(fields))


class Interp:
    def __init__(self, engine: Engine, interpreted_modules=("_griffe",)):
        self.eng = engine
        self.interpreted_modules = interpreted_modules

    # ---- helpers
    def truth(self, v) -> bool:
        if isinstance(v, SV):
            if is_sbool(v):
                return self.eng.branch(v.e)
            raise Unsupported(f"truth of non-bool symbolic {v}")
        if isinstance(v, SRecord):
            return True
        return bool(v)

    def sym_eq(self, a, b):
        """Return python bool or SV bool for a == b."""
        if isinstance(a, SV) and isinstance(b, SV):
            if a.codec is not b.codec:
                if a.codec is None or b.codec is None:
                    raise Unsupported("eq between coded and uncoded")
                return False
            return SV(a.e == b.e)
        if isinstance(b, SV):
            a, b = b, a
        if isinstance(a, SV):
            if a.codec is None:
                if isinstance(b, (bool, int)):
                    return SV(a.e == b)
                return False
            c = a.codec.code(b)
            if c is None:
                return False
            return SV(a.e == c)
        return a == b

    def sym_not(self, v):
        if isinstance(v, SV):
            return SV(z3.Not(v.e))
        return not v

    def contains(self, item, container):
        if isinstance(container, SRecord):
            return self.call_method(container, "__contains__", [item], {})
        if isinstance(item, SV):
            if isinstance(container, (frozenset, set, tuple, list, dict)):
                acc = []
                for x in container:
                    r = self.sym_eq(item, x)
                    if r is True:
                        return True
                    if r is not False:
                        acc.append(r.e)
                return SV(z3.Or(*acc)) if acc else False
            raise Unsupported(f"in {type(container)}")
        if isinstance(container, (list, tuple, set, frozenset)) and any(isinstance(x, SV) for x in container):
            acc = []
            for x in container:
                r = self.sym_eq(item, x)
                if r is True:
                    return True
                if r is not False:
                    acc.append(r.e)
            return SV(z3.Or(*acc)) if acc else False
        return item in container

    # ---- attribute / call
    def getattr(self, obj, name):
        if isinstance(obj, SRecord):
            if name in obj._fields:
                return obj._fields[name]
            for klass in obj._cls.__mro__:
                if name in klass.__dict__:
                    d = klass.__dict__[name]
                    if isinstance(d, property):
                        return self.call_function(d.fget, [obj], {})
                    if inspect.isfunction(d):
                        return ("boundmethod", d, obj)
                    return d
            raise AttributeError(name)
        if isinstance(obj, SV):
            raise Unsupported(f"attribute {name} of symbolic")
        return getattr(obj, name)

    def call_method(self, obj, name, args, kwargs):
        m = self.getattr(obj, name)
        return self.call(m, args, kwargs)

    def call(self, f, args, kwargs):
        if isinstance(f, tuple) and f and f[0] == "boundmethod":
            return self.call_function(f[1], [f[2], *args], kwargs)
        if inspect.isfunction(f) and (f.__module__ or "").split(".")[0] in self.interpreted_modules:
            return self.call_function(f, args, kwargs)
        # builtins with symbolic awareness
        if f is builtins.any:
            acc = []
            for x in args[0]:
                if isinstance(x, SV):
                    acc.append(x.e)
                elif x:
                    return True
            return SV(z3.Or(*acc)) if acc else False
        if f is builtins.all:
            acc = []
            for x in args[0]:
                if isinstance(x, SV):
                    acc.append(x.e)
                elif not x:
                    return False
            return SV(z3.And(*acc)) if acc else True
        if f is builtins.next:
            it = args[0]
            try:
                return next(it)
            except StopIteration:
                if len(args) > 1:
                    return args[1]
                raise _StopIterationProxy from None
        if f is builtins.isinstance:
            if isinstance(args[0], SRecord):
                return issubclass(args[0]._cls, args[1])
            if isinstance(args[0], SV):
                if args[0].codec is not None:
                    r = [isinstance(v, args[1]) for v in args[0].codec.values]
                    if all(r):
                        return True
                    if not any(r):
                        return False
                raise Unsupported("isinstance of symbolic")
            return isinstance(*args)
        if f in (builtins.enumerate, builtins.iter, builtins.list, builtins.tuple, builtins.len, builtins.range, builtins.zip, builtins.reversed):
            if isinstance(args[0], SRecord):
                it = self.iterate(args[0])
                if f is builtins.iter:
                    return it
                return f(list(it), *args[1:])
            return f(*args, **kwargs)
        if inspect.isclass(f):
            # Native construction; symbolic args are stored opaquely (constructor must not inspect them).
            try:
                return f(*args, **kwargs)
            except Unsupported:
                raise
        if isinstance(f, (type(str.lstrip), type("".lstrip))) or inspect.isbuiltin(f) or inspect.ismethod(f) or callable(f):
            if any(isinstance(a, SV) for a in args) or any(isinstance(a, SV) for a in kwargs.values()):
                raise Unsupported(f"native call {f} with symbolic args")
            return f(*args, **kwargs)
        raise Unsupported(f"call {f}")

    def iterate(self, obj):
        if isinstance(obj, SRecord):
            return self.call_method(obj, "__iter__", [], {})
        return iter(obj)

    def call_function(self, fn, args, kwargs):
        node = func_ast(fn)
        sig = inspect.signature(fn)
        ba = sig.bind(*args, **kwargs)
        ba.apply_defaults()
        frame = dict(ba.arguments)
        glob = fn.__globals__
        gen = self.exec_body(node.body, frame, glob)
        if has_yield(node):
            def runner():
                try:
                    yield from gen
                except _Return:
                    return
            return runner()
        try:
            for _ in gen:
                raise Unsupported("yield in non-generator")
        except _Return as r:
            return r.value
        return None

    # ---- statements (generators yielding values yielded by interpreted code)
    def exec_body(self, stmts, fr, gl):
        for s in stmts:
            yield from self.exec_stmt(s, fr, gl)

    def assign(self, target, value, fr, gl):
        if isinstance(target, ast.Name):
            fr[target.id] = value
        elif isinstance(target, (ast.Tuple, ast.List)):
            vals = list(value)
            if len(vals) != len(target.elts):
                raise ValueError("unpack")
            for t, v in zip(target.elts, vals):
                self.assign(t, v, fr, gl)
        elif isinstance(target, ast.Attribute):
            obj = self.ev(target.value, fr, gl)
            if isinstance(obj, SRecord):
                obj._fields[target.attr] = value
            else:
                setattr(obj, target.attr, value)
        else:
            raise Unsupported(f"assign target {ast.dump(target)}")

    def exec_stmt(self, s, fr, gl):
        if isinstance(s, ast.Expr):
            if isinstance(s.value, ast.Yield):
                yield (self.ev(s.value.value, fr, gl) if s.value.value else None)
            elif isinstance(s.value, ast.YieldFrom):
                yield from self.iterate(self.ev(s.value.value, fr, gl))
            else:
                self.ev(s.value, fr, gl)
        elif isinstance(s, ast.Assign):
            v = self.ev(s.value, fr, gl)
            for t in s.targets:
                self.assign(t, v, fr, gl)
        elif isinstance(s, ast.AnnAssign):
            if s.value is not None:
                self.assign(s.target, self.ev(s.value, fr, gl), fr, gl)
        elif isinstance(s, ast.If):
            if self.truth(self.ev(s.test, fr, gl)):
                yield from self.exec_body(s.body, fr, gl)
            else:
                yield from self.exec_body(s.orelse, fr, gl)
        elif isinstance(s, ast.For):
            it = self.iterate(self.ev(s.iter, fr, gl))
            broke = False
            for item in it:
                self.assign(s.target, item, fr, gl)
                try:
                    yield from self.exec_body(s.body, fr, gl)
                except _Continue:
                    continue
                except _Break:
                    broke = True
                    break
            if not broke:
                yield from self.exec_body(s.orelse, fr, gl)
        elif isinstance(s, ast.Continue):
            raise _Continue
        elif isinstance(s, ast.Break):
            raise _Break
        elif isinstance(s, ast.Return):
            raise _Return(self.ev(s.value, fr, gl) if s.value else None)
        elif isinstance(s, ast.Pass):
            pass
        elif isinstance(s, ast.Try):
            try:
                yield from self.exec_body(s.body, fr, gl)
            except (_Return, _Break, _Continue, Unsupported):
                raise
            except Exception as exc:  # noqa: BLE001
                for h in s.handlers:
                    typ = self.ev(h.type, fr, gl) if h.type else Exception
                    if isinstance(exc, typ) or (isinstance(exc, _StopIterationProxy) and issubclass(StopIteration, typ if isinstance(typ, type) else typ[0])):
                        if h.name:
                            fr[h.name] = exc
                        yield from self.exec_body(h.body, fr, gl)
                        break
                else:
                    raise
            else:
                yield from self.exec_body(s.orelse, fr, gl)
            finally:
                pass
            yield from self.exec_body(s.finalbody, fr, gl)
        elif isinstance(s, ast.With):
            cms = [self.ev(i.context_expr, fr, gl) for i in s.items]
            for cm, i in zip(cms, s.items):
                v = cm.__enter__()
                if i.optional_vars is not None:
                    self.assign(i.optional_vars, v, fr, gl)
            try:
                yield from self.exec_body(s.body, fr, gl)
            except (_Return, _Break, _Continue, Unsupported):
                raise
            except Exception as exc:  # noqa: BLE001
                if not any(cm.__exit__(type(exc), exc, exc.__traceback__) for cm in reversed(cms)):
                    raise
            else:
                for cm in reversed(cms):
                    cm.__exit__(None, None, None)
        elif isinstance(s, ast.Raise):
            raise self.ev(s.exc, fr, gl)
        else:
            raise Unsupported(f"stmt {type(s).__name__}")

    # ---- expressions
    def ev(self, e, fr, gl):
        m = getattr(self, "ev_" + type(e).__name__, None)
        if m is None:
            raise Unsupported(f"expr {type(e).__name__}")
        return m(e, fr, gl)

    def ev_Constant(self, e, fr, gl):
        return e.value

    def ev_Name(self, e, fr, gl):
        if e.id in fr:
            return fr[e.id]
        if e.id in gl:
            return gl[e.id]
        return getattr(builtins, e.id)

    def ev_Attribute(self, e, fr, gl):
        return self.getattr(self.ev(e.value, fr, gl), e.attr)

    def ev_Tuple(self, e, fr, gl):
        return tuple(self.ev(x, fr, gl) for x in e.elts)

    def ev_List(self, e, fr, gl):
        return [self.ev(x, fr, gl) for x in e.elts]

    def ev_Set(self, e, fr, gl):
        return [self.ev(x, fr, gl) for x in e.elts]  # list model of set

    def ev_JoinedStr(self, e, fr, gl):
        return "<fstring>"

    def ev_IfExp(self, e, fr, gl):
        return self.ev(e.body if self.truth(self.ev(e.test, fr, gl)) else e.orelse, fr, gl)

    def ev_UnaryOp(self, e, fr, gl):
        v = self.ev(e.operand, fr, gl)
        if isinstance(e.op, ast.Not):
            if isinstance(v, SV):
                if not is_sbool(v):
                    raise Unsupported("not on non-bool symbolic")
                return SV(z3.Not(v.e))
            return not self.truth(v)
        if isinstance(e.op, ast.USub):
            return SV(-v.e) if isinstance(v, SV) else -v
        raise Unsupported("unaryop")

    def ev_BoolOp(self, e, fr, gl):
        # Short-circuit semantics; result must be used as a boolean when symbolic.
        is_and = isinstance(e.op, ast.And)
        acc = []
        last = None
        for sub in e.values:
            v = self.ev(sub, fr, gl)
            last = v
            if isinstance(v, SV):
                if not is_sbool(v):
                    raise Unsupported("boolop on non-bool symbolic")
                # evaluation of later operands is pure in our subset: fold without forking
                acc.append(v.e)
                continue
            t = self.truth(v)
            if is_and and not t:
                return v if not acc else False
            if (not is_and) and t:
                return v if not acc else True
        if acc:
            return SV(z3.And(*acc) if is_and else z3.Or(*acc))
        return last

    def cmp(self, op, a, b):
        if isinstance(op, (ast.Eq, ast.Is)):
            return self.sym_eq(a, b) if (isinstance(a, SV) or isinstance(b, SV)) else (a is b if isinstance(op, ast.Is) else a == b)
        if isinstance(op, (ast.NotEq, ast.IsNot)):
            if isinstance(a, SV) or isinstance(b, SV):
                return self.sym_not(self.sym_eq(a, b))
            return a is not b if isinstance(op, ast.IsNot) else a != b
        if isinstance(op, ast.In):
            return self.contains(a, b)
        if isinstance(op, ast.NotIn):
            return self.sym_not(self.contains(a, b))
        if isinstance(a, SV) or isinstance(b, SV):
            ae = a.e if isinstance(a, SV) else a
            be = b.e if isinstance(b, SV) else b
            return SV({ast.Lt: ae < be, ast.LtE: ae <= be, ast.Gt: ae > be, ast.GtE: ae >= be}[type(op)])
        import operator
        return {ast.Lt: operator.lt, ast.LtE: operator.le, ast.Gt: operator.gt, ast.GtE: operator.ge}[type(op)](a, b)

    def ev_Compare(self, e, fr, gl):
        left = self.ev(e.left, fr, gl)
        acc = []
        for op, c in zip(e.ops, e.comparators):
            right = self.ev(c, fr, gl)
            r = self.cmp(op, left, right)
            if isinstance(r, SV):
                acc.append(r.e)
            elif not r:
                return False
            left = right
        return SV(z3.And(*acc)) if acc else True

    def ev_BinOp(self, e, fr, gl):
        a = self.ev(e.left, fr, gl)
        b = self.ev(e.right, fr, gl)
        if isinstance(a, SV) or isinstance(b, SV):
            ae = a.e if isinstance(a, SV) else a
            be = b.e if isinstance(b, SV) else b
            if isinstance(e.op, ast.Add):
                return SV(ae + be)
            if isinstance(e.op, ast.Sub):
                return SV(ae - be)
            raise Unsupported("binop on symbolic")
        import operator
        ops = {ast.Add: operator.add, ast.Sub: operator.sub, ast.Mult: operator.mul, ast.BitOr: operator.or_, ast.BitAnd: operator.and_, ast.Mod: operator.mod}
        return ops[type(e.op)](a, b)

    def ev_Subscript(self, e, fr, gl):
        obj = self.ev(e.value, fr, gl)
        if isinstance(e.slice, ast.Slice):
            lo = self.ev(e.slice.lower, fr, gl) if e.slice.lower else None
            hi = self.ev(e.slice.upper, fr, gl) if e.slice.upper else None
            return obj[lo:hi]
        idx = self.ev(e.slice, fr, gl)
        if isinstance(obj, SRecord):
            return self.call_method(obj, "__getitem__", [idx], {})
        if isinstance(idx, SV):
            raise Unsupported("symbolic index")
        return obj[idx]

    def ev_Call(self, e, fr, gl):
        # special-case method calls on lists with symbolic args
        if isinstance(e.func, ast.Attribute):
            obj = self.ev(e.func.value, fr, gl)
            args = [self.ev(a, fr, gl) for a in e.args]
            kwargs = {k.arg: self.ev(k.value, fr, gl) for k in e.keywords}
            if isinstance(obj, list) and e.func.attr == "index" and (isinstance(args[0], SV) or any(isinstance(x, SV) for x in obj)):
                for i, x in enumerate(obj):
                    if self.truth(self.sym_eq(x, args[0])):
                        return i
                raise ValueError("not in list")
            if isinstance(obj, list) and e.func.attr == "append":
                obj.append(args[0])
                return None
            if isinstance(obj, SV):
                if obj.codec is not None and e.func.attr in ("lstrip",) and all(isinstance(v, str) and not v.startswith(args[0]) for v in obj.codec.values if isinstance(v, str)):
                    return obj  # identity on this alphabet
                raise Unsupported(f"method {e.func.attr} on symbolic")
            return self.call(self.getattr(obj, e.func.attr), args, kwargs)
        f = self.ev(e.func, fr, gl)
        args = []
        for a in e.args:
            if isinstance(a, ast.Starred):
                args.extend(self.ev(a.value, fr, gl))
            else:
                args.append(self.ev(a, fr, gl))
        kwargs = {k.arg: self.ev(k.value, fr, gl) for k in e.keywords}
        return self.call(f, args, kwargs)

    def comp_gen(self, elt, gens, fr, gl, i=0):
        if i == len(gens):
            yield self.ev(elt, fr, gl)
            return
        g = gens[i]
        for item in self.iterate(self.ev(g.iter, fr, gl)):
            self.assign(g.target, item, fr, gl)
            if all(self.truth(self.ev(c, fr, gl)) for c in g.ifs):
                yield from self.comp_gen(elt, gens, fr, gl, i + 1)

    def ev_ListComp(self, e, fr, gl):
        return list(self.comp_gen(e.elt, e.generators, dict(fr), gl))

    def ev_SetComp(self, e, fr, gl):
        return list(self.comp_gen(e.elt, e.generators, dict(fr), gl))

    def ev_GeneratorExp(self, e, fr, gl):
        return self.comp_gen(e.elt, e.generators, dict(fr), gl)
