"""./check Cxx — run every obligation of one property, replay counterexamples, write evidence.

Exit codes: 0 = no unlisted violation among everything explored (inconclusive obligations are listed
in the evidence, never counted as discharged); 1 = reproduced, unlisted violation (VIOLATION line);
3 = harness error (non-reproducing counterexample, vacuous obligation, engine failure).
"""
from __future__ import annotations

import argparse
import concurrent.futures as cf
import hashlib
import importlib
import json
import os
import subprocess
import sys
import tempfile
import time

ROOT = os.path.dirname(os.path.dirname(os.path.abspath(__file__)))
PY = os.path.join(ROOT, ".venv", "bin", "python")
WORKERS = int(os.environ.get("VERIF_WORKERS", "16"))


def _worker(mod, obname, extra, wall_timeout, env):
    fd, out = tempfile.mkstemp(prefix="verif_", suffix=".json", dir=os.environ.get("VERIF_TMP", tempfile.gettempdir()))
    os.close(fd)
    cmd = [PY, "-m", "vlib.xrun", mod, obname, *extra, "--out", out]
    t0 = time.time()
    try:
        p = subprocess.run(cmd, cwd=ROOT, env=env, stdout=subprocess.PIPE, stderr=subprocess.STDOUT, timeout=wall_timeout, text=True)
        try:
            res = json.load(open(out))
        except Exception:  # noqa: BLE001
            res = {"obligation": obname, "verdict": "error", "message": f"worker exit {p.returncode} without result", "traceback": (p.stdout or "")[-3000:]}
    except subprocess.TimeoutExpired:
        res = {"obligation": obname, "verdict": "unknown", "message": f"wall timeout {wall_timeout}s", "paths": 0, "solver_checks": 0, "solver_seconds": 0.0}
    finally:
        try:
            os.unlink(out)
        except OSError:
            pass
    res["job_wall_s"] = round(time.time() - t0, 2)
    return res


def native_replay(mod, obname, args, env):
    fd, path = tempfile.mkstemp(prefix="verif_args_", suffix=".json")
    with os.fdopen(fd, "w") as f:
        json.dump(args, f)
    try:
        return _worker(mod, obname, ["--native", path], 600, env)
    finally:
        os.unlink(path)


def load_known(pid):
    p = os.path.join(ROOT, "known_findings.json")
    if not os.path.exists(p):
        return []
    return [e for e in json.load(open(p)).get("findings", []) if e.get("property") == pid]


def main():
    ap = argparse.ArgumentParser()
    ap.add_argument("pid")
    ap.add_argument("--tier", default=os.environ.get("VERIF_TIER", "quick"), choices=["quick", "thorough"])
    ap.add_argument("--seed", type=int, default=int(os.environ.get("VERIF_SEED", "0") or 0))
    ap.add_argument("--replay")
    ap.add_argument("--only", action="append")
    ap.add_argument("--no-evidence", action="store_true")
    a = ap.parse_args()
    pid = a.pid
    t_start = time.time()
    env = dict(os.environ, VERIF_TIER=a.tier, VERIF_SEED=str(a.seed), PYTHONDONTWRITEBYTECODE="1", PYTHONHASHSEED="0")
    env.pop("PYTHONPATH", None)
    if os.environ.get("VERIF_REPO_SRC"):
        # development aid only (seeded-change experiments on a scratch worktree): the registered checks always analyse /repo/src
        env["PYTHONPATH"] = os.environ["VERIF_REPO_SRC"]
        sys.path.insert(0, os.environ["VERIF_REPO_SRC"])
    os.environ.update(VERIF_TIER=a.tier, VERIF_SEED=str(a.seed))
    sys.path.insert(0, ROOT)
    from vlib import ob as OB

    OB.TIER = a.tier
    OB.assert_repo_import()
    mods = sorted(f[:-3] for f in os.listdir(os.path.join(ROOT, "harness")) if f.startswith(pid + "_") and f.endswith(".py"))
    if not mods:
        print(f"HARNESS-ERROR: no harness for {pid}")
        return 3
    for m in mods:
        try:
            importlib.import_module("harness." + m)
        except Exception:  # noqa: BLE001
            import traceback

            print(f"HARNESS-ERROR: harness module {m} cannot be imported against this tree:\n" + traceback.format_exc()[-2500:])
            return 3
    obs = [o for o in OB.REGISTRY.values() if o.pid == pid and (not a.only or o.name in a.only)]

    # ---- --replay: re-run a stored scenario natively
    if a.replay:
        sc = json.load(open(a.replay))
        o = OB.REGISTRY[sc["obligation"]]
        r = native_replay(o.module, o.name, sc["args"], env)
        print(json.dumps(r, indent=1)[:6000])
        if r.get("reproduced"):
            print(f"VIOLATION property={pid} replay={os.path.abspath(a.replay)}")
            return 1
        print("not reproduced")
        return 0

    harness_errors: list[str] = []
    known_active = []
    exclude: dict[str, list[str]] = {}
    fixed_entries = []

    # ---- known findings: replay each open witness natively; exclude its (narrow) region only if it still fails
    for e in load_known(pid):
        if e.get("status") == "fixed":
            fixed_entries.append(e)
            continue
        if a.tier not in e.get("tiers", ["quick", "thorough"]):
            continue
        targets = [o for o in obs if e["obligation"] == "*" or o.name == e["obligation"]]
        if not targets:
            continue
        # the witness is replayed natively on one obligation whose harness accepts it
        import inspect as _inspect

        cand = [o for o in targets if o.fn is not None and set(e["witness"]) == set(_inspect.signature(o.fn).parameters)] or targets
        r = native_replay(cand[0].module, cand[0].name, e["witness"], env)
        if r.get("reproduced"):
            print(f"KNOWN-FINDING: property={pid} {e['id']}: {e['description']}")
            known_active.append(e["id"])
            for o in targets:
                if o.engine == "X" and o.fn is not None:
                    # a python region only applies to harnesses that have all the arguments it mentions
                    names = set(compile(e["region"], "<region>", "eval").co_names)
                    params = set(_inspect.signature(o.fn).parameters)
                    import sys as _sys

                    if not names <= params | set(vars(_sys.modules[o.module])) | set(dir(__builtins__)):
                        continue
                exclude.setdefault(o.name, []).append(e["region"])
        else:
            print(f"note: known finding {e['id']} no longer reproduces; its region is not excluded")

    # ---- jobs
    jobs = []
    for o in obs:
        ex = json.dumps(exclude.get(o.name, []))
        wall = int(o.timeout * 1.6 + 60)
        for i, _sh in enumerate(o.shard_list()):
            jobs.append((o, "shard", ["--shard", str(i), "--exclude", ex], wall))
        jobs.append((o, "twin", ["--shard", "0", "--twin", "--exclude", ex], wall))
        if o.grid is not None:
            jobs.append((o, "grid", ["--grid", "--exclude", ex], 900))
    jobs.append((None, "selftest", [], 600))

    results = []
    with cf.ThreadPoolExecutor(WORKERS) as ex_:
        futs = {}
        # heavy shards first
        for o, kind, extra, wall in sorted(jobs, key=lambda j: -j[3]):
            if kind == "selftest":
                fut = ex_.submit(lambda: subprocess.run([PY, "-m", "vlib.selftest", pid], cwd=ROOT, env=env, stdout=subprocess.PIPE, stderr=subprocess.STDOUT, text=True, timeout=900))
            else:
                fut = ex_.submit(_worker, o.module, o.name, extra, wall, env)
            futs[fut] = (o, kind)
        for fut in cf.as_completed(futs):
            o, kind = futs[fut]
            try:
                results.append((o, kind, fut.result()))
            except Exception as e:  # noqa: BLE001
                results.append((o, kind, {"verdict": "error", "message": repr(e)}))

    violations = []
    per_ob = {o.name: {"shards": [], "twin": None, "grid": None} for o in obs}
    selftest = None
    for o, kind, r in results:
        if kind == "selftest":
            selftest = r
            continue
        if kind == "shard":
            per_ob[o.name]["shards"].append(r)
        else:
            per_ob[o.name][kind] = r
    if selftest is None or getattr(selftest, "returncode", 1) != 0:
        harness_errors.append("engine self-test failed: " + (getattr(selftest, "stdout", "") or str(selftest))[-1500:])
    try:
        selftest_summary = json.loads((selftest.stdout or "").strip().splitlines()[-1])
    except Exception:  # noqa: BLE001
        selftest_summary = {}

    os.makedirs(os.path.join(ROOT, "replays", pid), exist_ok=True)
    ob_reports = []
    n_obl = n_dis = 0
    tot_paths = tot_checks = 0
    tot_solver = 0.0
    traces_validated = 0
    samples = []
    inconclusive = []
    excluded_shards = []
    for o in obs:
        rec = per_ob[o.name]
        shards = rec["shards"]
        n_obl += len(shards)
        cover = set()
        status = "confirmed"
        for r in shards:
            tot_paths += r.get("paths", 0)
            tot_checks += r.get("solver_checks", 0)
            tot_solver += r.get("solver_seconds", 0.0)
            cover.update(r.get("cover", []))
            v = r.get("verdict")
            if v == "confirmed":
                n_dis += 1
            elif v == "refuted":
                cex = r.get("counterexample")
                rep = native_replay(o.module, o.name, cex, env)
                traces_validated += 1
                if rep.get("reproduced"):
                    h = hashlib.sha1(json.dumps([o.name, cex], sort_keys=True).encode()).hexdigest()[:12]
                    path = os.path.join(ROOT, "replays", pid, f"{o.name}-{h}.json")
                    json.dump({"property": pid, "obligation": o.name, "args": cex, "engine_message": r.get("message"), "native": rep}, open(path, "w"), indent=1)
                    violations.append((o.name, cex, path, rep.get("detail", "")))
                    status = "violated"
                else:
                    harness_errors.append(f"{o.name}[{r.get('shard')}]: counterexample {cex} does not reproduce natively: {rep.get('detail')}")
                    status = "error"
            elif v == "excluded":
                excluded_shards.append(f"{o.name}[{r.get('shard')}]")
            elif v in ("unknown",):
                inconclusive.append(f"{o.name}[{r.get('shard')}]: {r.get('message') or 'not confirmed within budget'}")
                if status == "confirmed":
                    status = "inconclusive"
            elif v == "pre_unsat":
                harness_errors.append(f"{o.name}[{r.get('shard')}]: vacuous shard (precondition unsatisfiable): {r.get('message')}")
                status = "error"
            else:
                harness_errors.append(f"{o.name}[{r.get('shard')}]: engine error: {r.get('message')} {r.get('traceback', '')[-800:]}")
                status = "error"
        tw = rec["twin"] or {}
        if tw.get("verdict") != "refuted" and not (shards and all(r.get("verdict") == "excluded" for r in shards)):
            harness_errors.append(f"{o.name}: reachability twin not refuted ({tw.get('verdict')}: {tw.get('message')}) — obligation may be vacuous")
        cover.update(tw.get("cover", []))
        missing = [c for c in o.must_cover if c not in cover]
        if missing and status == "confirmed":
            harness_errors.append(f"{o.name}: required reachability witnesses never hit: {missing}")
        g = rec["grid"]
        if g is not None:
            if g.get("verdict") == "error":
                harness_errors.append(f"{o.name}: grid error {g.get('message')} {g.get('traceback', '')[-800:]}")
            else:
                traces_validated += g.get("grid", 0) - g.get("skipped_pre", 0)
                for smp in g.get("samples", [])[:2]:
                    samples.append({"obligation": o.name, "concrete_in_bound_point_run_natively": smp})
                for fr in (g.get("failures") or [])[:3]:
                    pub = fr.get("public_replay")
                    if str(fr.get("detail", "")).startswith("public replay fails although the harness passes") or "HARNESS DEFECT" in str(fr.get("detail", "")) or (pub is not None and not pub.get("reproduced")):
                        # the harness and its independent replay disagree: the harness (encoding, stub or reference model) is wrong
                        harness_errors.append(f"{o.name}: native grid point: harness and independent replay disagree: {fr}")
                        continue
                    # A concrete in-bound point fails natively (and through the independent replay when there is one): this has exactly the
                    # status of a confirmed counterexample. The engine did not produce it (a model gap, e.g. aliasing of mutable state
                    # across CrossHair's container proxies), which is recorded with the violation.
                    cex = fr.get("args")
                    h = hashlib.sha1(json.dumps([o.name, cex], sort_keys=True).encode()).hexdigest()[:12]
                    path = os.path.join(ROOT, "replays", pid, f"{o.name}-{h}.json")
                    json.dump({"property": pid, "obligation": o.name, "args": cex, "engine_message": "found by the native validation grid; the engine confirmed the shard (engine model gap)", "native": fr}, open(path, "w"), indent=1)
                    violations.append((o.name, cex, path, "[native validation grid] " + str(fr.get("detail", ""))))
                    if status == "confirmed":
                        status = "violated"
        samples.append({"obligation": o.name, "paths_reached": sorted(cover)[:12]})
        ob_reports.append({
            "name": o.name, "engine": o.engine, "status": status, "doc": o.doc[:400],
            "shards": len(shards), "shards_confirmed": sum(1 for r in shards if r.get("verdict") == "confirmed"),
            "paths": sum(r.get("paths", 0) for r in shards), "solver_checks": sum(r.get("solver_checks", 0) for r in shards),
            "solver_seconds": round(sum(r.get("solver_seconds", 0.0) for r in shards), 2),
            "cpu_s": round(sum(r.get("cpu_s", 0.0) for r in shards), 1),
            "max_shard_wall_s": max([r.get("job_wall_s", 0) for r in shards] or [0]),
            "bounds": o.bounds, "value_symbolic": o.value_symbolic, "selectors": o.selectors, "stubs": o.stubs,
            "functions_encoded": OB.source_fingerprint(o.drives), "cover": sorted(cover), "twin": tw.get("verdict"),
            "grid_points": (g or {}).get("grid", 0),
            "extra": {k: v for r in shards for k, v in (r.get("extra") or {}).items()},
        })

    for name, cex, path, detail in violations:
        print(f"VIOLATION property={pid} replay={path}")
        print(f"  obligation={name} args={json.dumps(cex)[:500]}")
        print("  " + detail.strip().replace("\n", "\n  ")[:1500])
        samples.append({"obligation": name, "counterexample": cex})
    for h in harness_errors:
        print("HARNESS-ERROR:", h[:3000])
    for i in inconclusive:
        print("INCONCLUSIVE:", i)

    assumptions = sorted({s for o in obs for s in o.assumptions} | {"stub: " + s for o in obs for s in o.stubs})
    assumptions.append("CrossHair 0.0.110 models of str/list/dict/re (with vlib/chpatches.py) and z3 are trusted for 'confirmed' verdicts; every counterexample is replayed natively")
    ev = {
        "property_id": pid, "tier": a.tier, "seed": a.seed, "level": "model_checking",
        "coverage": {
            "states": max(tot_paths, 0), "transitions": tot_checks, "traces_validated_against_impl": traces_validated,
            "samples": samples[:40], "obligations": n_obl, "discharged": n_dis, "inconclusive": inconclusive, "shards_inside_known_finding_regions": excluded_shards,
            "exhaustive": bool(n_obl and n_obl == n_dis and not harness_errors),
            "solver_seconds": round(tot_solver, 2), "engine_selftest": selftest_summary,
            "obligation_reports": ob_reports, "known_findings_active": known_active,
            "explanation": "states = feasible symbolic paths explored over the real code; transitions = z3 solver checks; an obligation shard is discharged only if the engine exhausted its path tree with every end-of-path assertion unsatisfiable ('confirmed over all paths') within the stated bounds",
        },
        "assumptions": assumptions, "wall_s": round(time.time() - t_start, 2), "violations": len(violations),
        "harness_errors": harness_errors,
    }
    if not a.no_evidence and not a.only:
        os.makedirs(os.path.join(ROOT, "evidence"), exist_ok=True)
        json.dump(ev, open(os.path.join(ROOT, "evidence", pid + ".json"), "w"), indent=1)
    print(f"{pid} tier={a.tier}: obligations(shards)={n_obl} discharged={n_dis} inconclusive={len(inconclusive)} paths={tot_paths} solver_checks={tot_checks} solver_s={tot_solver:.1f} wall={time.time() - t_start:.0f}s violations={len(violations)} known={known_active}")
    for r in ob_reports:
        print(f"  {r['name']:<28} {r['status']:<12} shards={r['shards_confirmed']}/{r['shards']} paths={r['paths']} checks={r['solver_checks']} cpu={r['cpu_s']}s maxwall={r['max_shard_wall_s']}s twin={r['twin']}")
    if violations:
        return 1
    if harness_errors:
        return 3
    return 0


if __name__ == "__main__":
    sys.exit(main())
