"""Engine self-test battery: the string/sequence/regex idioms griffe's code relies on, checked against
CPython semantics through the same CrossHair driver the harnesses use.

Each idiom `f(x) == native_f(x)` must come back CONFIRMED within a tiny bound, and each mutated twin must
come back REFUTED with a counterexample that reproduces natively. A failure means the trusted base is
broken: exit 3.
"""
from __future__ import annotations

import collections
import inspect
import json
import re
import sys
import time

import vlib.chpatches  # noqa: F401
from crosshair.condition_parser import POSTCONDITION, PRECONDITION, ConditionExpr, Conditions, condition_parser
from crosshair.core import analyze_calltree
import crosshair.core_and_libs  # noqa: F401  (registers library models)
from crosshair.options import DEFAULT_OPTIONS
from crosshair.statespace import VerificationStatus
from crosshair.tracers import NoTracing, is_tracing
from crosshair.core import deep_realize

AL = " :\na-"


def small(s: str) -> bool:
    return len(s) <= 3 and all(c in AL for c in s)


def native(f, *args):
    """Evaluate f on realised copies of the arguments without tracing (CPython semantics)."""
    if not is_tracing():
        return f(*args)
    conc = [deep_realize(a) for a in args]
    with NoTracing():
        return f(*conc)


# (name, function(symbolic) -> value, mutated function) ; compared with the native evaluation of `function`
def _rstrip_nl(s: str):
    return s.rstrip("\n")


def _concat_slice(s: str):
    return (s + "\n")[:-1]


def _split_colon(s: str):
    return s.split(":", 1)


def _lstrip_len(s: str):
    return len(s) - len(s.lstrip())


def _splitlines_join(s: str):
    return "\n".join(s.split("\n"))


def _startswith_indent(s: str, n: int):
    return s.startswith(n * " ")


def _strip_empty(s: str):
    return not s.strip()


def _removesuffix(s: str):
    return s.removesuffix(":")


def _lower(s: str):
    return s.lower()


def _in_dict(s: str):
    return s in {"a": 1, "a:": 2, "-": 3}


def _partition(s: str):
    return s.partition(" ")


def _rsplit_dot(s: str):
    return s.rsplit(":", 1)[-1]


_RE1 = re.compile(r"^(?P<name>[a-]+)(?: (?P<rest>.*))?:$")
_RE2 = re.compile(r"^\s*(?P<k>a+)\s*:\s*(?P<v>.*)$")


def _groupdict1(s: str):
    # regexes are applied through vlib.stubs.RealizingPattern in every harness (CrossHair's symbolic regex
    # model was measured to be wrong for `(.*)?X` shapes): the wrapper must agree with `re` exactly.
    from vlib.stubs import RealizingPattern

    m = RealizingPattern(_RE1).match(s)
    return m.groupdict() if m else None


def _groups2(s: str):
    from vlib.stubs import RealizingPattern

    m = RealizingPattern(_RE2).search(s)
    return (m.group("k"), m.group("v"), m.span()) if m else None


def _slice_from(s: str, n: int):
    return s[n:]


def _list_slice(s: str, n: int):
    parts = s.split("\n")
    return parts[n - 1 : n + 1]


def _dedent_like(s: str, n: int):
    return [line[n:] for line in s.split("\n")]


def _count_leading(s: str):
    n = 0
    for c in s:
        if c != " ":
            break
        n += 1
    return n


IDIOMS = [
    (_rstrip_nl, 1), (_concat_slice, 1), (_split_colon, 1), (_lstrip_len, 1), (_splitlines_join, 1), (_startswith_indent, 2),
    (_strip_empty, 1), (_removesuffix, 1), (_lower, 1), (_in_dict, 1), (_partition, 1), (_rsplit_dot, 1), (_groupdict1, 1),
    (_groups2, 1), (_slice_from, 2), (_list_slice, 2), (_dedent_like, 2), (_count_leading, 1),
]


def make_harness(f, nargs, mutate):
    if nargs == 1:
        def h(s: str) -> bool:
            got = f(s)
            exp = native(f, s)
            if mutate:
                exp = native(lambda x: f(x + " "), s) if not isinstance(exp, bool) else (not exp if "a" in native(str, s) else exp)
            return got == exp

        def pre(s):
            return small(s) and (len(s) <= 2 or f is not _lower)
    else:
        def h(s: str, n: int) -> bool:
            got = f(s, n)
            exp = native(f, s, n)
            if mutate:
                exp = native(lambda x, k: f(x, k + 1), s, n)
            return got == exp

        def pre(s, n):
            return len(s) <= 2 and small(s) and 0 <= n <= 2
    h.__name__ = f.__name__ + ("_mut" if mutate else "")
    return h, pre


def analyze(fn, pre, timeout=200.0):
    sig = inspect.signature(fn, eval_str=True)
    names = list(sig.parameters)
    cap = {}

    def describe(args, ret, reprs):
        cap["args"] = dict(args.arguments)
        return ("cex", "")

    cond = Conditions(fn=fn, src_fn=fn, pre=[ConditionExpr(PRECONDITION, lambda ns: pre(**{k: ns[k] for k in names}), __file__, 1, "pre")],
                      post=[ConditionExpr(POSTCONDITION, lambda ns: bool(ns["__return__"]), __file__, 1, "post")], raises=frozenset(), sig=sig,
                      mutable_args=None, fn_syntax_messages=[], counterexample_description_maker=describe)
    opts = DEFAULT_OPTIONS.overlay(per_condition_timeout=timeout, per_path_timeout=30.0, stats=collections.Counter())
    opts.deadline = time.process_time() + timeout
    with condition_parser(opts.analysis_kind):
        an = analyze_calltree(opts, cond)
    return an.verification_status, cap.get("args"), opts.stats.get("num_paths", 0)


def one(i):
    f, nargs = IDIOMS[i]
    bad = []
    paths = 0
    n = 0
    if True:
        h, pre = make_harness(f, nargs, False)
        st, cex, p = analyze(h, pre)
        paths += p
        n += 1
        if st is not VerificationStatus.CONFIRMED:
            bad.append(f"{f.__name__}: expected CONFIRMED got {st} cex={cex}")
        hm, prem = make_harness(f, nargs, True)
        st, cex, p = analyze(hm, prem)
        paths += p
        n += 1
        if st is not VerificationStatus.REFUTED or cex is None:
            bad.append(f"{f.__name__} (mutant): expected REFUTED got {st}")
        else:
            # the counterexample must reproduce natively
            if hm(**cex):
                bad.append(f"{f.__name__} (mutant): counterexample {cex} does not reproduce natively")
    return bad, paths, n


def main():
    import multiprocessing as mp

    t0 = time.time()
    with mp.Pool(6) as pool:
        res = pool.map(one, range(len(IDIOMS)))
    bad = [b for r in res for b in r[0]]
    print(json.dumps({"idioms": len(IDIOMS), "contracts": sum(r[2] for r in res), "failed": bad, "paths": sum(r[1] for r in res), "wall_s": round(time.time() - t0, 1)}))
    return 3 if bad else 0


if __name__ == "__main__":
    sys.exit(main())
