"""Stubs shared by harnesses (each use is listed in the obligation's `stubs`)."""
from __future__ import annotations

import re


def _is_tracing():
    try:
        from crosshair.tracers import is_tracing

        return is_tracing()
    except Exception:  # noqa: BLE001
        return False


def realize_value(v):
    """Make a symbolic value concrete (the engine forks over its feasible values: sound, exact)."""
    if not _is_tracing():
        return v
    from crosshair.core import deep_realize

    return deep_realize(v)


class RealizingPattern:
    """`re.Pattern` stand-in: regex matching is a C boundary — the subject string is realised (one path
    per feasible value) and CPython's own `re` does the match, so the semantics are exactly CPython's."""

    def __init__(self, pat):
        self._pat = pat if isinstance(pat, re.Pattern) else re.compile(pat)

    def _do(self, how, s, *a):
        cs = realize_value(s)
        ca = [realize_value(x) for x in a]
        if _is_tracing():
            from crosshair.tracers import NoTracing

            with NoTracing():
                return getattr(self._pat, how)(cs, *ca)
        return getattr(self._pat, how)(cs, *ca)

    def match(self, s, *a):
        return self._do("match", s, *a)

    def search(self, s, *a):
        return self._do("search", s, *a)

    def fullmatch(self, s, *a):
        return self._do("fullmatch", s, *a)

    def sub(self, repl, s, *a):
        cs = realize_value(s)
        if _is_tracing():
            from crosshair.tracers import NoTracing

            with NoTracing():
                return self._pat.sub(repl, cs, *a)
        return self._pat.sub(repl, cs, *a)

    def __getattr__(self, name):
        return getattr(self._pat, name)


class RealizingRe:
    """Module stand-in for `re` inside one griffe module (re.match(pattern, s) with inline patterns)."""

    def __init__(self):
        self._cache = {}

    def _p(self, pattern, flags=0):
        key = (pattern, flags)
        if key not in self._cache:
            self._cache[key] = RealizingPattern(re.compile(pattern, flags))
        return self._cache[key]

    def compile(self, pattern, flags=0):  # noqa: A003
        return self._p(pattern, flags)

    def match(self, pattern, s, flags=0):
        return self._p(pattern, flags).match(s)

    def search(self, pattern, s, flags=0):
        return self._p(pattern, flags).search(s)

    def fullmatch(self, pattern, s, flags=0):
        return self._p(pattern, flags).fullmatch(s)

    def sub(self, pattern, repl, s, count=0, flags=0):
        return self._p(pattern, flags).sub(repl, s, count)

    def __getattr__(self, name):
        return getattr(re, name)


def realize_regexes(module) -> list[str]:
    """Replace every compiled pattern bound in `module` (and its `re` reference) by realising stand-ins."""
    done = []
    for k, v in list(vars(module).items()):
        if isinstance(v, re.Pattern):
            setattr(module, k, RealizingPattern(v))
            done.append(f"{module.__name__}.{k}")
    if getattr(module, "re", None) is re:
        module.re = RealizingRe()
        done.append(f"{module.__name__}.re")
    return done


def silence_logging() -> list[str]:
    """Formatting/logging is not the subject (and realises symbolic strings): make it a no-op."""
    import _griffe.logger as L

    done = []
    for name in ("trace", "debug", "info", "success", "warning", "error", "critical", "log", "exception"):
        if hasattr(L.logger, name):
            try:
                setattr(L.logger, name, lambda *a, **k: None)
                done.append(f"logger.{name}")
            except Exception:  # noqa: BLE001
                pass
    return done


def plain_error_messages() -> list[str]:
    """AliasResolutionError builds an f-string from the alias path/target/line number; formatting realises
    symbolic values (one path per line number!). The message is not the subject: keep the attributes, drop the text."""
    import _griffe.exceptions as E

    def _init(self, alias):
        self.alias = alias
        Exception.__init__(self, "could not resolve alias (message formatting stubbed)")

    E.AliasResolutionError.__init__ = _init
    return ["AliasResolutionError.__init__ keeps .alias but does not format its message"]
