"""Worker: run ONE obligation shard (engine X = CrossHair, or engine S) or a native replay.

usage: python -m vlib.xrun <harness module> <obligation> --shard K [--twin] [--exclude JSON] --out FILE
       python -m vlib.xrun <harness module> <obligation> --native ARGS.json --out FILE

The result is one JSON document written to --out.
"""
from __future__ import annotations

import argparse
import importlib
import inspect
import json
import os
import sys
import time
import traceback

sys.setrecursionlimit(10000)


def _load(modname, obname):
    from vlib import ob as OB

    OB.assert_repo_import()
    importlib.import_module(modname)
    return OB.REGISTRY[obname]


def _regions(ob, excl):
    """Compile known-finding regions (python expressions over the harness arguments)."""
    out = []
    mod = sys.modules[ob.module]
    for src in excl:
        code = compile(src, "<region>", "eval")
        out.append(lambda ns, code=code: eval(code, vars(mod), dict(ns)))  # noqa: S307
    return out


def run_x(ob, shard_idx: int, twin: bool, excl: list[str]) -> dict:
    import z3
    from vlib import ob as OB

    # count solver work
    stats = {"checks": 0, "seconds": 0.0}
    orig_check = z3.Solver.check

    def counting_check(self, *a, **k):
        t = time.perf_counter()
        try:
            return orig_check(self, *a, **k)
        finally:
            stats["checks"] += 1
            stats["seconds"] += time.perf_counter() - t

    z3.Solver.check = counting_check

    import vlib.chpatches  # noqa: F401
    from crosshair.condition_parser import POSTCONDITION, PRECONDITION, ConditionExpr, Conditions, condition_parser
    from crosshair.core import analyze_calltree
    import crosshair.core_and_libs  # noqa: F401  (registers library models)
    from crosshair.options import DEFAULT_OPTIONS
    from crosshair.statespace import MessageType, VerificationStatus
    from crosshair.util import set_debug

    if os.environ.get("VERIF_CH_DEBUG"):
        set_debug(True)

    fn = ob.fn
    sig = inspect.signature(fn, eval_str=True)
    names = list(sig.parameters)
    label, extra = ob.shard_list()[shard_idx]
    regions = _regions(ob, excl)
    fname = inspect.getsourcefile(fn) or "?"
    line = fn.__code__.co_firstlineno

    def pre_eval(ns):
        kw = {k: ns[k] for k in names}
        if ob.pre is not None and not ob.pre(**kw):
            return False
        if extra is not None and not extra(**kw):
            return False
        for r in regions:
            if r(kw):
                return False
        return True

    def post_eval(ns):
        if twin:
            return False
        return bool(ns["__return__"])

    captured = {}

    def describe(args, return_val, reprs):
        captured["args"] = {k: OB.to_jsonable(v) for k, v in args.arguments.items()}
        captured["ret"] = OB.to_jsonable(return_val)
        return (f"{fn.__name__}({captured['args']})", repr(return_val))

    conditions = Conditions(
        fn=fn,
        src_fn=fn,
        pre=[ConditionExpr(PRECONDITION, pre_eval, fname, line, "pre")],
        post=[ConditionExpr(POSTCONDITION, post_eval, fname, line, "post")],
        raises=frozenset(),
        sig=sig,
        mutable_args=None,
        fn_syntax_messages=[],
        counterexample_description_maker=describe,
    )
    import collections

    options = DEFAULT_OPTIONS.overlay(
        per_condition_timeout=float(ob.timeout),
        per_path_timeout=float(ob.path_timeout),
        stats=collections.Counter(),
    )
    t0 = time.perf_counter()
    c0 = time.process_time()
    options.deadline = time.process_time() + options.per_condition_timeout
    with condition_parser(options.analysis_kind):
        analysis = analyze_calltree(options, conditions)
    wall = time.perf_counter() - t0
    status = analysis.verification_status
    msgs = analysis.messages
    verdict = {VerificationStatus.CONFIRMED: "confirmed", VerificationStatus.UNKNOWN: "unknown", VerificationStatus.REFUTED: "refuted"}[status]
    message = ""
    tb = ""
    for m in msgs:
        if m.state == MessageType.PRE_UNSAT:
            verdict = "pre_unsat"
        message = m.message
        tb = m.traceback or ""
    if verdict == "refuted" and "args" not in captured:
        verdict = "error"
        message = "refuted without counterexample: " + message
    return {
        "engine": "X",
        "obligation": ob.name,
        "shard": label,
        "twin": twin,
        "verdict": verdict,
        "message": message[:2000],
        "traceback": tb[-3000:],
        "counterexample": captured.get("args"),
        "paths": int(options.stats.get("num_paths", 0)),
        "confirmed_paths": int(analysis.num_confirmed_paths),
        "solver_checks": stats["checks"],
        "solver_seconds": round(stats["seconds"], 3),
        "wall_s": round(wall, 2),
        "cpu_s": round(time.process_time() - c0, 2),
        "cover": sorted(OB.COVER),
    }


def run_native(ob, args: dict) -> dict:
    """Replay concrete arguments through the harness WITHOUT any tracer (plain CPython on the real code)."""
    from vlib import ob as OB

    out = {"obligation": ob.name, "args": args}
    try:
        if ob.pre is not None and not ob.pre(**args):
            out.update(reproduced=False, detail="precondition false natively (engine model disagrees with CPython)", pre_ok=False)
            return out
    except Exception:  # noqa: BLE001
        out.update(reproduced=False, detail="precondition raised natively:\n" + traceback.format_exc(), pre_ok=False)
        return out
    out["pre_ok"] = True
    OB.LAST_FAIL.clear()
    try:
        r = ob.fn(**args)
        if r:
            out.update(reproduced=False, detail="harness returns True natively")
        else:
            out.update(reproduced=True, detail="assertion false natively: " + "; ".join(OB.LAST_FAIL[-3:]))
    except Exception as e:  # noqa: BLE001
        out.update(reproduced=True, detail=f"raised {type(e).__name__}: {e}\n" + traceback.format_exc()[-2500:])
    if out["reproduced"] and ob.replay is not None:
        # independent replay through public entry points / the external oracle
        try:
            rep, detail = ob.replay(**args)
            out["public_replay"] = {"reproduced": bool(rep), "detail": str(detail)[:3000]}
            if not rep:
                out["reproduced"] = False
                out["detail"] += "\nNOT reproduced through public replay: " + str(detail)[:2000]
        except Exception:  # noqa: BLE001
            out["public_replay"] = {"reproduced": False, "detail": "replay raised:\n" + traceback.format_exc()[-2500:]}
            out["reproduced"] = False
    return out


def main():
    ap = argparse.ArgumentParser()
    ap.add_argument("module")
    ap.add_argument("obligation")
    ap.add_argument("--shard", type=int, default=0)
    ap.add_argument("--twin", action="store_true")
    ap.add_argument("--exclude", default="[]")
    ap.add_argument("--native")
    ap.add_argument("--grid", action="store_true")
    ap.add_argument("--out", required=True)
    a = ap.parse_args()
    try:
        ob = _load(a.module, a.obligation)
        if a.native:
            res = run_native(ob, json.load(open(a.native)))
        elif a.grid:
            from vlib import ob as OB

            pts = ob.grid(OB.SEED) if ob.grid else []
            runs = [run_native(ob, p) for p in pts]
            res = {"obligation": ob.name, "grid": len(runs), "skipped_pre": sum(1 for r in runs if not r.get("pre_ok")),
                   "failures": [r for r in runs if r["reproduced"]][:5], "samples": [r["args"] for r in runs if r.get("pre_ok")][:3]}
        elif ob.engine == "S":
            res = ob.run(shard=a.shard, twin=a.twin, excluded=json.loads(a.exclude))
            res.setdefault("engine", "S")
            res.setdefault("obligation", ob.name)
            res.setdefault("twin", a.twin)
        else:
            res = run_x(ob, a.shard, a.twin, json.loads(a.exclude))
    except BaseException as e:  # noqa: BLE001
        res = {"obligation": a.obligation, "verdict": "error", "message": f"{type(e).__name__}: {e}", "traceback": traceback.format_exc()[-4000:], "twin": a.twin}
    with open(a.out, "w") as f:
        json.dump(res, f)


if __name__ == "__main__":
    main()
