"""Worker: run ONE obligation shard (engine X = CrossHair, or engine S) or a native replay.

usage: python -m vlib.xrun <harness module> <obligation> --shard K [--twin] [--exclude JSON] --out FILE
       python -m vlib.xrun <harness module> <obligation> --native ARGS.json --out FILE

The result is one JSON document written to --out.
"""
from __future__ import annotations

import argparse
import importlib
import inspect
import json
import os
import sys
import time
import traceback

sys.setrecursionlimit(1500)  # runaway recursion in the code under test must surface as RecursionError (a violation), not as a hang


def _load(modname, obname):
    from vlib import ob as OB

    OB.assert_repo_import()
    importlib.import_module(modname)
    return OB.REGISTRY[obname]


def _regions(ob, excl):
    """Compile known-finding regions (python expressions over the harness arguments)."""
    out = []
    mod = sys.modules[ob.module]
    for src in excl:
        code = compile(src, "<region>", "eval")
        out.append(lambda ns, code=code: eval(code, vars(mod), dict(ns)))  # noqa: S307
    return out


def run_x(ob, shard_idx: int, twin: bool, excl: list[str]) -> dict:
    import z3
    from vlib import ob as OB

    # count solver work
    stats = {"checks": 0, "seconds": 0.0}
    orig_check = z3.Solver.check

    def counting_check(self, *a, **k):
        t = time.perf_counter()
        try:
            return orig_check(self, *a, **k)
        finally:
            stats["checks"] += 1
            stats["seconds"] += time.perf_counter() - t

    z3.Solver.check = counting_check

    import vlib.chpatches  # noqa: F401
    from crosshair.condition_parser import POSTCONDITION, PRECONDITION, ConditionExpr, Conditions, condition_parser
    from crosshair.core import analyze_calltree
    import crosshair.core_and_libs  # noqa: F401  (registers library models)
    from crosshair.options import DEFAULT_OPTIONS
    from crosshair.statespace import MessageType, VerificationStatus
    from crosshair.util import set_debug

    if os.environ.get("VERIF_CH_DEBUG"):
        set_debug(True)

    fn = ob.fn
    full_sig = inspect.signature(fn, eval_str=True)
    shard = ob.shard_list()[shard_idx]
    label, extra = shard[0], shard[1]
    cases = shard[2] if len(shard) > 2 and shard[2] else [{}]
    regions = _regions(ob, excl)
    fname = inspect.getsourcefile(fn) or "?"
    line = fn.__code__.co_firstlineno
    import collections

    t0 = time.perf_counter()
    c0 = time.process_time()
    deadline = time.process_time() + float(ob.timeout)
    total_paths = total_confirmed = 0
    verdict = "confirmed"
    message = tb = ""
    cex = None
    cases_done = 0
    for fixed in cases:
        # `fixed` = selector arguments bound concretely by the driver; the rest stays symbolic for the solver
        names = [n for n in full_sig.parameters if n not in fixed]
        sig = full_sig.replace(parameters=[full_sig.parameters[n] for n in names])

        def call(*a, __fixed=fixed, __names=names, **kw):
            kw.update(zip(__names, a))
            return fn(**__fixed, **kw)

        def pre_eval(ns, __fixed=fixed, __names=names):
            kw = dict(__fixed)
            kw.update({k: ns[k] for k in __names})
            if extra is not None and not extra(**kw):
                return False
            if ob.pre is not None and not ob.pre(**kw):
                return False
            for r in regions:
                if r(kw):
                    return False
            return True

        def post_eval(ns):
            if twin:
                return False
            return bool(ns["__return__"])

        captured = {}

        def describe(args, return_val, reprs, __fixed=fixed):
            captured["args"] = {**{k: OB.to_jsonable(v) for k, v in __fixed.items()}, **{k: OB.to_jsonable(v) for k, v in args.arguments.items()}}
            return (f"{fn.__name__}({captured['args']})", repr(return_val))

        call.__name__ = fn.__name__
        conditions = Conditions(
            fn=call, src_fn=fn,
            pre=[ConditionExpr(PRECONDITION, pre_eval, fname, line, "pre")],
            post=[ConditionExpr(POSTCONDITION, post_eval, fname, line, "post")],
            raises=frozenset(), sig=sig, mutable_args=None, fn_syntax_messages=[],
            counterexample_description_maker=describe,
        )
        remaining = deadline - time.process_time()
        if remaining <= 0:
            verdict, message = "unknown", f"shard budget exhausted after {cases_done}/{len(cases)} cases"
            break
        options = DEFAULT_OPTIONS.overlay(per_condition_timeout=float(remaining), per_path_timeout=float(ob.path_timeout), stats=collections.Counter())
        options.deadline = time.process_time() + remaining
        with condition_parser(options.analysis_kind):
            analysis = analyze_calltree(options, conditions)
        total_paths += int(options.stats.get("num_paths", 0))
        total_confirmed += int(analysis.num_confirmed_paths)
        status = analysis.verification_status
        v = {VerificationStatus.CONFIRMED: "confirmed", VerificationStatus.UNKNOWN: "unknown", VerificationStatus.REFUTED: "refuted"}[status]
        pre_unsat = False
        for m in analysis.messages:
            if m.state == MessageType.PRE_UNSAT:
                pre_unsat = True
            message = m.message
            tb = m.traceback or ""
        cases_done += 1
        if pre_unsat:
            if len(cases) == 1:
                verdict = "pre_unsat"
                break
            continue  # a case outside the precondition contributes nothing
        if v == "refuted":
            if "args" in captured:
                verdict, cex = "refuted", captured["args"]
            else:
                verdict, message = "error", "refuted without counterexample: " + message
            break
        if v == "unknown":
            verdict = "unknown"
            message = message or f"case {fixed} not confirmed within budget"
            break
    wall = time.perf_counter() - t0
    if verdict in ("confirmed", "pre_unsat") and total_confirmed == 0:
        if excl and not twin:
            verdict, message = "excluded", "every case of this shard lies inside a known-finding region"
        else:
            verdict, message = "pre_unsat", "no case of this shard satisfies the precondition"
    return {
        "engine": "X",
        "obligation": ob.name,
        "shard": label,
        "twin": twin,
        "verdict": verdict,
        "message": message[:2000],
        "traceback": tb[-3000:],
        "counterexample": cex,
        "paths": total_paths,
        "confirmed_paths": total_confirmed,
        "cases": cases_done,
        "solver_checks": stats["checks"],
        "solver_seconds": round(stats["seconds"], 3),
        "wall_s": round(wall, 2),
        "cpu_s": round(time.process_time() - c0, 2),
        "cover": sorted(OB.COVER),
    }


def run_native(ob, args: dict) -> dict:
    """Replay concrete arguments through the harness WITHOUT any tracer (plain CPython on the real code)."""
    from vlib import ob as OB

    out = {"obligation": ob.name, "args": args}
    try:
        if ob.pre is not None and not ob.pre(**args):
            out.update(reproduced=False, detail="precondition false natively (engine model disagrees with CPython)", pre_ok=False)
            return out
    except Exception:  # noqa: BLE001
        out.update(reproduced=False, detail="precondition raised natively:\n" + traceback.format_exc(), pre_ok=False)
        return out
    out["pre_ok"] = True
    OB.LAST_FAIL.clear()
    try:
        r = ob.fn(**args)
        if r:
            out.update(reproduced=False, detail="harness returns True natively")
        else:
            out.update(reproduced=True, detail="assertion false natively: " + "; ".join(OB.LAST_FAIL[-3:]))
    except Exception as e:  # noqa: BLE001
        out.update(reproduced=True, detail=f"raised {type(e).__name__}: {e}\n" + traceback.format_exc()[-2500:])
    if out["reproduced"] and ob.replay is not None:
        # independent replay through public entry points / the external oracle
        try:
            rep, detail = ob.replay(**args)
            out["public_replay"] = {"reproduced": bool(rep), "detail": str(detail)[:3000]}
            if not rep:
                out["reproduced"] = False
                out["detail"] += "\nNOT reproduced through public replay: " + str(detail)[:2000]
        except OB.HarnessDefect as e:
            out["public_replay"] = {"reproduced": False, "detail": "HARNESS DEFECT: " + str(e)[:2500]}
            out["reproduced"] = False
            out["detail"] += "\nHARNESS DEFECT found by the replay: " + str(e)[:2000]
        except Exception:  # noqa: BLE001
            out["public_replay"] = {"reproduced": False, "detail": "replay raised:\n" + traceback.format_exc()[-2500:]}
            out["reproduced"] = False
    return out


def main():
    ap = argparse.ArgumentParser()
    ap.add_argument("module")
    ap.add_argument("obligation")
    ap.add_argument("--shard", type=int, default=0)
    ap.add_argument("--twin", action="store_true")
    ap.add_argument("--exclude", default="[]")
    ap.add_argument("--native")
    ap.add_argument("--grid", action="store_true")
    ap.add_argument("--out", required=True)
    a = ap.parse_args()
    try:
        ob = _load(a.module, a.obligation)
        if a.native:
            res = run_native(ob, json.load(open(a.native)))
        elif a.grid:
            from vlib import ob as OB

            pts = ob.grid(OB.SEED) if ob.grid else []
            if ob.engine == "X":
                # grid points inside an active known-finding region are expected to fail: they are not validation points
                regs = _regions(ob, json.loads(a.exclude))
                pts = [p for p in pts if not any(r(p) for r in regs)]
            runs = [run_native(ob, p) for p in pts]
            if ob.replay is not None:
                # validation pass: the independent replay (second renderer / public API / external oracle) must agree on in-bound points
                for r in runs:
                    if r.get("pre_ok") and not r["reproduced"]:
                        try:
                            rep, detail = ob.replay(**r["args"])
                            if rep:
                                r.update(reproduced=True, detail="public replay fails although the harness passes: " + str(detail)[:1500])
                        except OB.HarnessDefect as e:
                            r.update(reproduced=True, detail="HARNESS DEFECT: " + str(e)[:1500])
            res = {"obligation": ob.name, "grid": len(runs), "skipped_pre": sum(1 for r in runs if not r.get("pre_ok")),
                   "failures": [r for r in runs if r["reproduced"]][:5], "samples": [r["args"] for r in runs if r.get("pre_ok")][:3]}
        elif ob.engine == "S":
            res = ob.run(shard=a.shard, twin=a.twin, excluded=json.loads(a.exclude))
            res.setdefault("engine", "S")
            res.setdefault("obligation", ob.name)
            res.setdefault("twin", a.twin)
        else:
            res = run_x(ob, a.shard, a.twin, json.loads(a.exclude))
    except BaseException as e:  # noqa: BLE001
        res = {"obligation": a.obligation, "verdict": "error", "message": f"{type(e).__name__}: {e}", "traceback": traceback.format_exc()[-4000:], "twin": a.twin}
    with open(a.out, "w") as f:
        json.dump(res, f)


if __name__ == "__main__":
    main()
